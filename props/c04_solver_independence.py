"""C04 — the SCF answer does not depend on the solver path that produced it.

Oracle: relational.  Reference = Pulay DIIS + diagonalisation, scf_eps 1e-11, cold start.  Candidates = every
selectable converger {[0,alpha], [1], [2], [3,KSA]} x {diag, SP2 tolerances} x {RHF, UHF singlet} x scf_eps
{1e-6,1e-8,1e-10} x start density {cold, density of the previous point of an MD-like sequence x_k = x + k*delta,
perturbed, non-idempotent mixture}.  Every converged candidate must agree with the reference in Etot, forces,
charges and orbital energies within K * eps_eff * A(alpha); tightening eps must not move a result away from the
limit (monotonicity)."""
import numpy as np

from vlib import gen

PROPERTY = "C04"
RULE = ("case = (closed-shell library molecule with reference gap >= 2 eV, random distortion sigma<=0.08 A, method) "
        "with a list of candidate solver configurations (converger x SP2 x RHF/UHF-singlet x scf_eps x start density, "
        "incl. a 5-point MD-like geometry sequence restarted from the candidate's own previous density); non-trivial "
        "when the reference converged, is eligible and at least one converged candidate was compared; distinct by "
        "SHA-1 of the case")
ASSUMPTIONS = ["float64 CPU", "near-equilibrium closed-shell molecules with HOMO-LUMO gap >= 2 eV measured on the reference run",
               "reference = Pulay+diag at scf_eps 1e-11, cold start (its own error <= 1e-10 is inside every bound used), cross-checked "
               "against a second independent path (fixed mixing 0.3, eps 1e-11, cold); when the two end on different SCF states the "
               "lower one is the reference and the event is judged by a stability analysis",
               "'single stable closed-shell solution' is decided by the lowest eigenvalue of the singlet stability matrix A+B built from "
               "the independent reference model (MNDO/AM1/PM3) or, for PM6_SP, by restarting a damped SCF 0.01 away from the state",
               "candidates the API flags not converged are counted, not compared",
               "KSA driven at T_el = 100 K (occupation smearing exp(-gap/2kT) < 1e-50)"]
REQUIRED_MONITORS = ["padded_anion_rows_compared_ksa", "padded_anion_rows_compared", "batch_sp2_calls_uneven_sweeps", "batch_sp2_rows_vs_alone", "batch_rows_compared", "batch_uhf_rows_compared", "candidates_compared", "sp2_candidates_compared", "uhf_candidates_compared",
                     "restart_candidates_compared", "ksa_candidates_compared", "monotonicity_pairs"]
CASE_TIMEOUT = 600.0
BUDGET_S = {"quick": 200, "thorough": 1700}

K_E, K_F, K_Q, K_EMO = 20.0, 2.0e3, 300.0, 2.0e3
ABS_E, ABS_F, ABS_Q, ABS_EMO = 2e-10, 1e-8, 1e-9, 1e-8   # reference's own error (eps 1e-11) + round-off
GAP_MIN = 2.0
KSA = {"T_el": 100.0, "max_rank": 3, "err_threshold": 0.0}
EPSS = [1e-6, 1e-8, 1e-10]
RHF_CONVS = [[0, 0.0], [0, 0.3], [0, 0.6], [0, 0.9], [1], [2], [3, dict(KSA)]]
UHF_CONVS = [[0, 0.3], [1], [0, 0.6]]
SP2S = [1e-3, 1e-5, 1e-7, 1e-9]
POOL = ["H2O", "NH3", "CH4", "HF", "CO", "HCN", "CH2O", "N2", "C2H2", "CO2", "CH3OH", "C2H4", "HCOOH", "CH3F",
        "HOOH", "N2O", "CH3NH2", "HNO", "BeH2", "BH3", "HCl", "H2S", "PH3", "SiH4", "CH3Cl", "SO2", "LiF", "AlH3",
        "C2H6", "CH3SH", "H2", "LiH", "NaCl", "MgH2", "Cl2", "F2", "BF3", "SiH3Cl"]
METHODS = ["AM1", "PM3", "MNDO", "PM6_SP"]
PH3_WITNESS = {"Z": [15, 1, 1, 1], "X": [[0.0807, 0.0324, 0.0499], [1.3413, -0.0732, -0.7826], [-0.6767, 0.9427, -0.7632],
                                          [-0.5061, -1.0650, -0.7599]]}
DISTINCT_E = 1.0e-4   # eV: a converged result this far (and > 100 x its bound) from the reference is another SCF solution


def _conv_tag(conv):
    if conv[0] == 0:
        return "mix%.1f" % conv[1]
    return {1: "adaptive", 2: "pulay", 3: "ksa"}[conv[0]]


def _pick(g, seq):
    return seq[int(g.integers(0, len(seq)))]


def _cands(g, tier):
    """list of candidate configurations for one molecule"""
    out = []

    def add(conv, eps, sp2=None, uhf=False, start="cold"):
        out.append({"conv": conv, "eps": eps, "sp2": sp2, "uhf": uhf, "start": start})

    rep = 1 if tier == "quick" else 2
    for _ in range(rep):
        for conv in RHF_CONVS:                       # every converger, cold
            add(conv, _pick(g, EPSS))
    for _ in range(rep):
        mono = _pick(g, RHF_CONVS)                   # monotonicity triple(s)
        st = _pick(g, ["cold", "perturbed"])
        for e in EPSS:
            add(mono, e, start=st)
    if tier == "thorough":
        mono = _pick(g, [[0, 0.3], [1], [2]])
        tol = _pick(g, SP2S)
        for e in EPSS:
            add(mono, e, sp2=tol)
        for e in EPSS:
            add(_pick(g, UHF_CONVS[:2]), e, uhf=True)
    for tol in (SP2S if tier == "thorough" else [SP2S[int(i)] for i in g.permutation(4)[:3]]):
        add(_pick(g, [[0, 0.3], [1], [2], [0, 0.0]]), _pick(g, EPSS), sp2=tol)
    for conv in (UHF_CONVS if tier == "thorough" else UHF_CONVS[:2]):
        add(conv, _pick(g, EPSS), uhf=True, start=_pick(g, ["cold", "cold", "perturbed"]))
    for st in ["perturbed", "nonidem"] * rep:
        add(_pick(g, RHF_CONVS), _pick(g, EPSS), start=st)
        add(_pick(g, [[0, 0.3], [1], [2]]), _pick(g, EPSS), sp2=_pick(g, [None, 1e-5, 1e-7]), start=st)
    # MD-like sequence(s): one configuration followed over 5 neighbouring geometries, restarting from its own density
    for _ in range(rep):
        conv = _pick(g, RHF_CONVS + [[1], [2]])
        add(conv, _pick(g, EPSS), sp2=_pick(g, [None, None, 1e-7]) if conv[0] != 3 else None, start="sequence")
    if tier == "thorough":
        add(_pick(g, UHF_CONVS[:2]), _pick(g, EPSS), uhf=True, start="sequence")
    return out


def gen_cases(tier, seed):
    g = gen.rng("C04", tier)
    n = 12 if tier == "quick" else 150
    cases = []
    for i in range(n):
        method = METHODS[i % 4]
        names = gen.names_for(method, POOL)
        name = names[int(g.integers(0, len(names)))]
        cases.append({"mol": name, "method": method, "gseed": int(g.integers(0, 2**31)),
                      "sigma": float(_pick(g, [0.02, 0.05, 0.08])), "cands": _cands(g, tier)})
    # expensive first
    cases.sort(key=lambda c: -len(gen.molecule(c["mol"])[0]))
    # reported witness (C20 builder): MNDO PH3, Pulay from a cold start ends on a saddle point 37 eV above the minimum
    ksa = [3, dict(KSA)]
    cases.insert(0, {"mol": "PH3", "method": "MNDO", "gseed": 0, "sigma": 0.0, "explicit": dict(PH3_WITNESS),
                     "cands": [{"conv": cv, "eps": e, "sp2": None, "uhf": False, "start": st}
                               for cv, e, st in [([2], 1e-6, "cold"), ([2], 1e-8, "cold"), ([2], 1e-10, "cold"),
                                                 ([1], 1e-8, "cold"), ([0, 0.3], 1e-8, "cold"), ([0, 0.0], 1e-8, "cold"),
                                                 (ksa, 1e-8, "cold"), ([2], 1e-8, "perturbed"), ([2], 1e-8, "nonidem")]]
                              + [{"conv": [1], "eps": 1e-8, "sp2": 1e-7, "uhf": False, "start": "cold"},
                                 {"conv": [1], "eps": 1e-8, "sp2": None, "uhf": True, "start": "cold"},
                                 {"conv": [2], "eps": 1e-8, "sp2": None, "uhf": False, "start": "sequence"}]})
    # batch family: heterogeneous zero-padded batches; every row against the SAME molecule run alone (tight Pulay RHF)
    bcands = [{"conv": [1], "sp2": None, "uhf": False}, {"conv": [2], "sp2": None, "uhf": False},
              {"conv": [1], "sp2": None, "uhf": True}, {"conv": [0, 0.3], "sp2": None, "uhf": True},
              {"conv": [1], "sp2": 1e-7, "uhf": False}]
    named = [(["CH4", "H2O", "HCN"], "AM1"), (["NH3", "HCN", "H2O"], "AM1"), (["CO", "CH4"], "PM3")]
    nb = 1 if tier == "quick" else 24
    batches = []
    for i in range(nb):
        method = METHODS[i % 4]
        names = [n for n in gen.names_for(method, POOL) if len(gen.molecule(n)[0]) <= 6]
        batches.append(([names[int(j)] for j in g.permutation(len(names))[: int(g.integers(3, 5))]], method))
    # SP2 in batches whose rows need different numbers of purification sweeps (small next to much larger molecule): the SP2
    # candidates are judged row by row against the SAME solver configuration run on the molecule alone
    ucands = [{"conv": [0, 0.3], "sp2": 1e-7, "uhf": False, "eps": 1e-10}, {"conv": [1], "sp2": 1e-5, "uhf": False, "eps": 1e-10},
              {"conv": [2], "sp2": 1e-7, "uhf": False, "eps": 1e-10}]
    uneven = [["CH4", "C6H6"], ["N2", "C6H6"]]
    small_, large_ = ["CH4", "N2", "H2O", "NH3", "HF", "CO"], ["C6H6", "C2H6", "CH3NH2", "CH3OH", "HCOOH", "C2H4"]
    for i in range(0 if tier == "quick" else 16):
        kk = int(g.integers(3, 8)) if i % 4 == 0 else 2
        uneven.append([_pick(g, small_), _pick(g, large_)] + [_pick(g, small_ + large_) for _ in range(kk - 2)])
    for k, names in enumerate(uneven):
        cases.insert(1 + k, {"kind": "batch", "sp2_alone": True, "mols": [{"name": n, "gseed": int(g.integers(0, 2**31))} for n in names],
                             "method": "AM1", "sigma": 0.03, "pad": 0,
                             "cands": [dict(c, sp2=float(_pick(g, [1e-5, 1e-7])) if tier == "thorough" else c["sp2"]) for c in ucands]})
    # heterogeneous zero-padded batches whose SMALLER member is a closed-shell anion (chemical potential above 0 eV next to
    # padding orbitals at 0 eV), every solver incl. KSA at T_el 300-1500 K, thermal mixing and SP2
    def acands(T1, T2):
        return [{"conv": [1], "sp2": None, "uhf": False}, {"conv": [2], "sp2": None, "uhf": False}, {"conv": [0, 0.3], "sp2": None, "uhf": False},
                {"conv": [1], "sp2": 1e-7, "uhf": False}, {"conv": [1], "sp2": None, "uhf": True},
                {"conv": [3, {"T_el": T1, "max_rank": 3, "err_threshold": 0.0}], "sp2": None, "uhf": False},
                {"conv": [3, {"T_el": T2, "max_rank": 3, "err_threshold": 0.0}], "sp2": None, "uhf": False},
                {"conv": [0, 0.3, "T_el", T2], "sp2": None, "uhf": False}]
    an = [(["CH2O", "OH-"], "AM1", 300.0, 1500.0), (["CH3OH", "CN-"], "PM3", 800.0, 1500.0), (["C2H4", "NH2-", "H2O"], "AM1", 300.0, 1000.0),
          (["CH4", "HS-"], "MNDO", 1500.0, 500.0)]
    if tier == "thorough":
        bigs = ["CH2O", "CH3OH", "C2H4", "CH4", "HCOOH", "CH3NH2", "C2H6", "HCN", "NH3"]
        for i in range(20):
            me = METHODS[i % 3]
            a_ = _pick(g, ANIONS)
            nm = [_pick(g, bigs)] + [a_] + ([_pick(g, bigs + ["H2O"])] if i % 3 == 0 else [])
            an.append((nm if i % 2 else nm[::-1][-2:] + nm[2:], me, float(_pick(g, [300.0, 500.0, 800.0])), float(_pick(g, [1000.0, 1500.0]))))
    for k, (names, method, T1, T2) in enumerate(an):
        cases.insert(1 + k, {"kind": "batch", "anion": True, "mols": [{"name": n, "gseed": int(g.integers(0, 2**31))} for n in names],
                             "method": method, "sigma": 0.03, "pad": int(g.integers(0, 2)),
                             "cands": [dict(c, eps=1e-8) for c in acands(T1, T2)]})
    for k, (names, method) in enumerate(named + batches):
        cases.insert(1 + k, {"kind": "batch", "mols": [{"name": n, "gseed": int(g.integers(0, 2**31))} for n in names],
                             "method": method, "sigma": float(_pick(g, [0.02, 0.05])), "pad": int(g.integers(0, 2)),
                             "cands": [dict(c, eps=float(_pick(g, [1e-8, 1e-8, 1e-10, 1e-6]))) for c in bcands]})
    return cases


# ------------------------------------------------------------------------------------------------------
def _bounds(c, rho=0.0, width=0.0, lam=0.0):
    """bounds K * eps_eff * A.
    A = max(1/(1-alpha), 1/(1-rho)): a linearly convergent iteration stopped on |dP| <= 15 eps is still
    rho/(1-rho) * 15 eps away from its limit; for fixed mixing rho = alpha + (1-alpha)*lambda, so
    1/(1-rho) = [1/(1-alpha)] / (1-lambda) -- rho is *measured* on the candidate's own iteration log.
    KSA stops on the residual r = D(F[P]) - P (|r| <= 15 eps); the error is (1-J)^-1 r, i.e. amplified by 1/(1-lambda)
    along the slowest SCF mode; lambda is measured independently on the reference's damped run (rho_ref = 0.3 + 0.7 lambda).
    SP2 energies: SP2 stops when |tr X - n_occ| < tol on two successive steps, which bounds the summed occupation
    errors of occupied and virtual levels by <= 4 tol; they enter the energy in first order (x2 electrons), each weighted
    by at most the spectral width W of the orbital energies -> extra 8 * tol * W."""
    from vlib import scfmon
    alpha = float(c["conv"][1]) if c["conv"][0] == 0 else 0.0
    A = max(1.0 / (1.0 - alpha), 1.0 / (1.0 - rho))
    if c["conv"][0] == 3:
        A = max(A, 1.0 / (1.0 - lam))
    s2 = scfmon.sp2_eff(c.get("sp2"))
    ee = max(float(c["eps"]), s2)
    return ee, A, {"E": ABS_E + K_E * ee * A + 8.0 * s2 * width, "F": ABS_F + K_F * ee * A, "q": ABS_Q + K_Q * ee * A,
                   "emo": ABS_EMO + K_EMO * ee * A}


# closed-shell anions that the shared library does not carry (name: (Z sorted non-increasing, X, charge))
EXTRA_MOLS = {"NH2-": ([7, 1, 1], [[0.0, 0.0, 0.0], [0.8005, 0.0, 0.6482], [-0.8005, 0.0, 0.6482]], -1),
              "HS-": ([16, 1], [[0.0, 0.0, 0.0], [1.35, 0.0, 0.0]], -1)}
ANIONS = ["OH-", "CN-", "NH2-", "HS-"]


def _mol(name):
    if name in EXTRA_MOLS:
        Z, X, q = EXTRA_MOLS[name]
        return list(Z), np.array(X, float), q, 1
    return gen.molecule(name)


def _finite(out, row=0):
    """every reported quantity of a row is finite (NaN-safe gate: a non-finite result flagged converged is a violation)"""
    try:
        return bool(all(np.isfinite(np.asarray(out[k][row], float)).all() for k in ("Etot", "force", "q", "dm", "e_mo"))
                    and np.isfinite(float(np.asarray(out["gap"]).reshape(-1)[row] if np.asarray(out["gap"]).size > row else np.nan)))
    except Exception:
        return False


def _errors(out, ref, norb):
    e = {"E": abs(float(out["Etot"][0]) - float(ref["Etot"][0])),
         "F": float(np.abs(out["force"][0] - ref["force"][0]).max()),
         "q": float(np.abs(out["q"][0] - ref["q"][0]).max())}
    em = np.asarray(out["e_mo"][0])
    er = np.asarray(ref["e_mo"][0])[:norb]
    if em.ndim == 2:   # UHF: both spin channels against the restricted levels
        e["emo"] = float(max(np.abs(em[0][:norb] - er).max(), np.abs(em[1][:norb] - er).max()))
    else:
        e["emo"] = float(np.abs(em[:norb] - er).max())
    return e


def _run_batch(case):
    """batch family: each row of a heterogeneous zero-padded batch, under RHF / UHF-singlet / SP2 candidates, against
    the same molecule run alone (reference = tight Pulay RHF, cross-checked against fixed mixing; lower state wins)"""
    import torch  # noqa: F401

    from vlib import run, scfmon
    from seqm.seqm_functions import scf_loop as sl

    method = case["method"]
    mon = {"batch_reference_runs": 0, "batch_candidates_run": 0, "batch_rows_compared": 0, "batch_uhf_rows_compared": 0,
           "batch_sp2_rows_compared": 0, "batch_rows_not_converged": 0, "batch_rows_ineligible": 0, "candidates_raised": 0,
           "failpoints_fired": 0, "uhf_broken_symmetry_below_rhf": 0, "batch_rows_other_stationary_point": 0,
           "candidates_compared": 0, "uhf_candidates_compared": 0, "sp2_candidates_compared": 0, "get_error_calls": 0,
           "batch_sp2_calls_uneven_sweeps": 0, "batch_sp2_rows_vs_alone": 0, "padded_anion_rows_compared": 0,
           "padded_anion_rows_compared_ksa": 0, "ksa_candidates_raised": 0, "ksa_candidates_compared": 0}
    viol, margins, cells = [], {}, []

    def upd(name, val, tol):
        r = float(val) / tol
        if not np.isfinite(r):
            r = 1e300
        if name not in margins or r > margins[name]:
            margins[name] = r
        return r > 1.0

    mols, refs = [], []
    for mm in case["mols"]:
        Z, X, q, m = _mol(mm["name"])
        g0 = np.random.default_rng(mm["gseed"])
        Xd = gen.distort(X, g0, sigma=case["sigma"])
        Xd = Xd @ gen.generic_rotation(Xd, g0).T + g0.uniform(-3, 3, 3)
        mols.append((Z, Xd, q))
        rp = run.single_point(Z, Xd, run.settings(method, eps=1e-11, converger=(2,)), charges=q, mult=1)
        rm = run.single_point(Z, Xd, run.settings(method, eps=1e-11, converger=(0, 0.3)), charges=q, mult=1)
        mon["batch_reference_runs"] += 2
        okp, okm = not bool(np.any(rp["notconverged"])), not bool(np.any(rm["notconverged"]))
        for ok_, r_, cv_ in ((okp, rp, [2]), (okm, rm, [0, 0.3])):
            if ok_ and not _finite(r_):
                viol.append({"clause": "non-finite-result-flagged-converged", "mech": None,
                             "detail": {"candidate": {"conv": cv_, "eps": 1e-11, "start": "cold"}, "molecule": mm["name"],
                                        "species": Z, "coords": Xd.tolist()}})
        okp, okm = okp and _finite(rp), okm and _finite(rm)
        ref = None
        if okp and okm:
            if abs(float(rp["Etot"][0]) - float(rm["Etot"][0])) <= DISTINCT_E:
                ref = rp
            else:   # the single-molecule family judges this event; here the lower state is simply the reference
                lo = rp if rp["Etot"][0] < rm["Etot"][0] else rm
                ref = run.single_point(Z, Xd, run.settings(method, eps=1e-11, converger=(2,)), charges=q, mult=1,
                                       P0=np.array(lo["dm"], copy=True))
                mon["batch_reference_runs"] += 1
                if bool(np.any(ref["notconverged"])) or abs(float(ref["Etot"][0]) - float(lo["Etot"][0])) > 1e-6:
                    ref = lo
        elif okp or okm:
            ref = rp if okp else rm
        if ref is not None and not float(np.asarray(ref["gap"]).reshape(-1)[0]) >= GAP_MIN:
            ref = None
        if ref is None:
            mon["batch_rows_ineligible"] += 1
        refs.append(ref)
    if not any(r is not None for r in refs):
        return {"ineligible": "no eligible row in the batch", "monitors": mon}
    S, C = gen.pad_batch([(Z, X) for Z, X, _ in mols], extra_pad=case.get("pad", 0))
    charges = [float(q) for _, _, q in mols]
    nrow = len(mols)
    rhf_like = {}     # a restricted run of this batch (for rebuilding the restricted Fock matrix of a total density)

    for c in case["cands"]:
        sett = run.settings(method, eps=c["eps"], converger=tuple(c["conv"]), sp2=c.get("sp2"), uhf=bool(c.get("uhf")))
        lw = scfmon.standard_watch(int(sl.MAX_ITER), {"SP2": 200}, 300, extra=False)
        sweeps = scfmon.SP2SweepLog()
        if c.get("sp2"):
            from seqm.seqm_functions import SP2 as sp2mod
            sweeps.attach(lw, sp2mod.SP2)
        elog = scfmon.ErrorLog(c["eps"])
        mon["batch_candidates_run"] += 1
        out = None
        try:
            elog.install()
            lw.install()
            try:
                out = run.single_point(S, C, sett, charges=charges, mult=[1.0] * nrow, keep=True)
            except scfmon.FailPoint:
                mon["failpoints_fired"] += 1
            except Exception as exc:
                mon["candidates_raised"] += 1
                if c["conv"][0] == 3:
                    # the experimental KSA solver rejects some heterogeneous batches loudly (shape mismatch once rows converge in
                    # different iterations; NaN into eigh): a loud failure, same standing as a non-convergence flag (counted)
                    mon["ksa_candidates_raised"] += 1
                elif "converge" not in str(exc).lower():
                    # every molecule of the batch ran alone (reference arm completed): another solver raising is a path dependence
                    viol.append({"clause": "candidate-raised-while-reference-completed", "mech": None,
                                 "detail": {"candidate": c, "exception": "%s: %s" % (type(exc).__name__, str(exc)[:300]),
                                            "batch": [mm["name"] for mm in case["mols"]], "species": S, "coords": C}})
        finally:
            lw.uninstall()
            elog.uninstall()
            mon["get_error_calls"] += elog.calls
        mon["batch_sp2_calls_uneven_sweeps"] += sweeps.uneven_calls
        if out is None:
            continue
        if not c.get("uhf") and not c.get("sp2") and c["conv"][0] == 1:
            rhf_like["out"] = out
        rho = elog.contraction()
        flag = np.asarray(out["notconverged"]).astype(bool).reshape(-1)
        grp = "sp2" if c.get("sp2") else ("uhf" if c.get("uhf") else "diag")
        tag = "batch/%s/%s/%s/eps%g" % (method, _conv_tag(c["conv"]), grp, c["eps"])
        for b in range(nrow):
            ref = refs[b]
            if ref is None:
                continue
            if flag[b]:
                mon["batch_rows_not_converged"] += 1
                continue
            if not _finite(out, b):
                viol.append({"clause": "non-finite-result-flagged-converged", "mech": None,
                             "detail": {"candidate": c, "row": b, "molecule": case["mols"][b]["name"], "species": S, "coords": C}})
                continue
            Z, Xd, q = mols[b]
            norb = sum(4 if z > 1 else 1 for z in Z)
            nat = len(Z)
            em0 = np.asarray(ref["e_mo"][0])[:norb]
            _, A, B = _bounds(dict(c, start="cold"), rho, float(em0.max() - em0.min()))
            em = np.asarray(out["e_mo"][b])
            err = {"E": abs(float(out["Etot"][b]) - float(ref["Etot"][0])),
                   "F": float(np.abs(out["force"][b][:nat] - ref["force"][0][:nat]).max()),
                   "q": float(np.abs(out["q"][b][:nat] - ref["q"][0][:nat]).max()),
                   "emo": float(max(np.abs(em[0][:norb] - em0).max(), np.abs(em[1][:norb] - em0).max())) if em.ndim == 2
                   else float(np.abs(em[:norb] - em0).max())}
            dm = np.asarray(out["dm"][b])
            detail = {"candidate": c, "row": b, "molecule": case["mols"][b]["name"], "batch": [mm["name"] for mm in case["mols"]],
                      "species": S, "coords": C, "E_row": float(out["Etot"][b]), "E_alone": float(ref["Etot"][0]), "errors": err,
                      "rho_observed": rho}
            if err["E"] > max(DISTINCT_E, 100.0 * _bounds(dict(c, start="cold"), 0.98, 50.0, 0.98)[2]["E"]):
                # another state?  outside the premise only when it is a genuine, explainable one
                if dm.ndim == 3 and float(np.abs(dm[0] - dm[1]).max()) > 1e-6:
                    if float(out["Etot"][b]) < float(ref["Etot"][0]) - DISTINCT_E:
                        st = None
                        try:
                            st = scfmon.r1_singlet_stability(method, Z, Xd, np.asarray(ref["dm"][0]), triplet=True)
                        except Exception:
                            st = None
                        if st is None or st[0] < -1e-3:   # symmetry-broken UHF below a triplet-unstable RHF state
                            mon["uhf_broken_symmetry_below_rhf"] += 1
                            continue
                elif dm.ndim == 2 and c["conv"][0] == 2 and not c.get("sp2"):
                    # Pulay row on another self-consistent stationary point (batch-coupled DIIS resets / cold-start DIIS)
                    try:
                        Pt = out["_mol"].dm.detach()
                        Fk, Hk = scfmon.rebuild_fock(out["_mol"], Pt)
                        nel = int(sum(gen.VALENCE[z] for z in Z) - q)
                        r = scfmon.residuals(S[b], Pt.numpy()[b], Fk[b], Hk[b], nel, nel // 2, nel // 2, float(out["Eelec"][b]), out["q"][b], q)
                        sc = (r["idempotency"] <= 1e-12 + 50.0 * c["eps"] and r["commutator"] <= 1e-10 + 5e3 * c["eps"]
                              and r["reproduction"] <= 1e-10 + 300.0 * c["eps"] * max(1.0, 1.0 / max(r["gap"] or 1.0, 1e-3)))
                    except Exception:
                        sc = False
                    if sc:
                        mon["batch_rows_other_stationary_point"] += 1
                        hi_is_out = float(out["Etot"][b]) > float(ref["Etot"][0])
                        try:
                            s_out = scfmon.r1_singlet_stability(method, Z, Xd, dm)
                            s_ref = scfmon.r1_singlet_stability(method, Z, Xd, np.asarray(ref["dm"][0]))
                        except Exception:
                            s_out = s_ref = None
                        detail["stability_row_lambda_min"] = None if s_out is None else s_out[0]
                        detail["stability_alone_lambda_min"] = None if s_ref is None else s_ref[0]
                        if s_out is not None and s_ref is not None and hi_is_out and s_out[0] < -1e-3 and s_ref[0] > 1e-3:
                            viol.append({"clause": "converged-to-unstable-scf-solution",
                                         "mech": "pulay-lands-on-other-scf-stationary-point", "detail": detail})
                        continue     # two minima / undecided: outside the premise (counted above)
            mon["batch_rows_compared"] += 1
            mon["candidates_compared"] += 1
            if c.get("uhf"):
                mon["batch_uhf_rows_compared"] += 1
                mon["uhf_candidates_compared"] += 1
            if c.get("sp2"):
                mon["batch_sp2_rows_compared"] += 1
                mon["sp2_candidates_compared"] += 1
            cells.append(tag + "/nrow%d" % nrow)
            if c["conv"][0] == 3:
                mon["ksa_candidates_compared"] += 1
                grp = "ksa"
            if case.get("anion") and q < 0 and 0 in S[b]:
                mon["padded_anion_rows_compared"] += 1
                if c["conv"][0] == 3:
                    mon["padded_anion_rows_compared_ksa"] += 1
            for k in ("E", "F", "q", "emo"):
                if upd("batch_d%s/%s" % (k, grp), err[k], B[k]):
                    viol.append({"clause": "batch-row-d" + k, "mech": None,
                                 "detail": dict(detail, error=err[k], bound=B[k], ratio=err[k] / B[k], A=A)})
            # the atomic charges of the row add up to the molecular charge (each charge is within its own bound)
            qs = abs(float(np.sum(out["q"][b][:nat])) - float(q))
            if upd("batch_charge_sum/%s" % grp, qs, 2e-9 + nat * B["q"]):
                viol.append({"clause": "batch-row-charge-sum", "mech": None,
                             "detail": dict(detail, charge_sum=float(np.sum(out["q"][b][:nat])), charge=float(q), bound=2e-9 + nat * B["q"])})
            if case.get("sp2_alone") and c.get("sp2"):
                # same solver configuration, molecule alone: SP2 acts row by row, both runs end within one admissible step
                # of the same fixed point of the same map -> bounds in scf_eps (1e-10), not in the SP2 tolerance
                try:
                    al = run.single_point(Z, Xd, sett, charges=q, mult=1)
                except Exception:
                    al = None
                if al is not None and not bool(np.any(al["notconverged"])):
                    mon["batch_sp2_rows_vs_alone"] += 1
                    ema = np.asarray(al["e_mo"][0])[:norb]
                    e2 = {"E": abs(float(out["Etot"][b]) - float(al["Etot"][0])),
                          "F": float(np.abs(out["force"][b][:nat] - al["force"][0][:nat]).max()),
                          "q": float(np.abs(out["q"][b][:nat] - al["q"][0][:nat]).max()),
                          "emo": float(np.abs(em[:norb] - ema).max())}
                    ee = float(c["eps"])
                    B2 = {"E": ABS_E + K_E * ee * A, "F": ABS_F + K_F * ee * A, "q": ABS_Q + K_Q * ee * A, "emo": ABS_EMO + K_EMO * ee * A}
                    for k in ("E", "F", "q", "emo"):
                        if upd("batch_sp2_vs_alone_d%s" % k, e2[k], B2[k]):
                            viol.append({"clause": "batch-sp2-row-vs-alone-d" + k, "mech": None,
                                         "detail": dict(detail, error=e2[k], bound=B2[k], ratio=e2[k] / B2[k], A=A,
                                                        sweeps_per_row={str(kk): v[:4] for kk, v in sweeps.rows.items()})})
    return {"nontrivial": mon["batch_rows_compared"] > 0, "violations": viol, "margins": margins, "monitors": mon, "cells": cells,
            "obs": {"batch": [mm["name"] for mm in case["mols"]], "rows_compared": mon["batch_rows_compared"], "worst": margins}}


def run_case(case):
    if case.get("kind") == "batch":
        return _run_batch(case)
    import torch

    from vlib import run, scfmon
    from seqm.seqm_functions import scf_loop as sl

    Z, X, q, m = gen.molecule(case["mol"])
    g0 = np.random.default_rng(case["gseed"])
    if case.get("explicit"):
        Z, Xd = list(case["explicit"]["Z"]), np.array(case["explicit"]["X"], float)
    else:
        Xd = gen.distort(X, g0, sigma=case["sigma"])
        Xd = Xd @ gen.generic_rotation(Xd, g0).T
    method = case["method"]
    nat = len(Z)
    norb = sum(4 if z > 1 else 1 for z in Z)
    # MD-like displacement field: 0.012 A rms per coordinate and step
    delta = g0.normal(0.0, 0.012, Xd.shape)
    ref_sett = run.settings(method, eps=1e-11, converger=(2,))

    mon = {"reference_runs": 0, "candidates_run": 0, "candidates_compared": 0, "candidates_not_converged": 0,
           "sp2_candidates_compared": 0, "uhf_candidates_compared": 0, "restart_candidates_compared": 0,
           "ksa_candidates_compared": 0, "monotonicity_pairs": 0, "sequence_points_compared": 0,
           "candidates_raised": 0, "failpoints_fired": 0, "candidates_nonfinite": 0, "get_error_calls": 0,
           "reference_paths_agree": 0, "reference_paths_disagree": 0, "distinct_solutions_judged": 0,
           "distinct_solutions_both_stable": 0, "distinct_solutions_undecided": 0, "stability_analyses": 0,
           "uhf_broken_symmetry_below_rhf": 0}
    viol, margins, cells = [], {}, []
    refs = {}

    state = {}
    ref_mix = {"conv": [0, 0.3], "eps": 1e-11, "sp2": None, "uhf": False, "start": "cold"}
    ref_pul = {"conv": [2], "eps": 1e-11, "sp2": None, "uhf": False, "start": "cold"}
    pending = []   # distinct-solution events found while building references: (cand, out_high, out_low, where)

    def reference(k):
        """reference at x_k: Pulay+diag, eps 1e-11, cold -- cross-checked against a second, independent path
        (fixed mixing 0.3, eps 1e-11, cold).  When the two paths end on different SCF solutions the lower one is
        the reference (re-converged by a warm-started Pulay run) and the event is judged by `distinct`."""
        if k in refs:
            return refs[k]
        Xk = Xd + k * delta
        rp = run.single_point(Z, Xk, ref_sett, charges=q, mult=m, keep=True)
        el = scfmon.ErrorLog(1e-11)
        try:
            el.install()
            rm = run.single_point(Z, Xk, run.settings(method, eps=1e-11, converger=(0, 0.3)), charges=q, mult=m, keep=True)
        finally:
            el.uninstall()
        if k == 0:
            state["lam"] = float(min(max((el.contraction() - 0.3) / 0.7, 0.0), 0.98))
        mon["reference_runs"] += 2
        okp, okm = not bool(np.any(rp["notconverged"])), not bool(np.any(rm["notconverged"]))
        for ok_, r_, cv_ in ((okp, rp, ref_pul), (okm, rm, ref_mix)):
            if ok_ and not _finite(r_):
                viol.append({"clause": "non-finite-result-flagged-converged", "mech": None,
                             "detail": {"candidate": cv_, "where": k, "species": Z, "coords": Xk.tolist(), "charge": q}})
        okp, okm = okp and _finite(rp), okm and _finite(rm)
        if okp and okm and abs(float(rp["Etot"][0]) - float(rm["Etot"][0])) <= DISTINCT_E:
            mon["reference_paths_agree"] += 1
            refs[k] = rp
        elif okp and okm:
            mon["reference_paths_disagree"] += 1
            hi, lo, chi = (rp, rm, ref_pul) if rp["Etot"][0] > rm["Etot"][0] else (rm, rp, ref_mix)
            warm = run.single_point(Z, Xk, ref_sett, charges=q, mult=m, P0=np.array(lo["dm"], copy=True), keep=True)
            mon["reference_runs"] += 1
            if not bool(np.any(warm["notconverged"])) and abs(float(warm["Etot"][0]) - float(lo["Etot"][0])) <= 1e-6:
                lo = warm
            refs[k] = lo
            pending.append((chi, hi, lo, k))
        elif okp or okm:
            refs[k] = rp if okp else rm
        else:
            refs[k] = rp
        return refs[k]

    ref0 = reference(0)
    if bool(np.any(ref0["notconverged"])):
        return {"ineligible": "reference not converged", "monitors": mon}
    gap = float(np.asarray(ref0["gap"]).reshape(-1)[0])
    if not gap >= GAP_MIN:
        return {"ineligible": "reference gap < 2 eV", "monitors": mon, "obs": {"gap": gap}}
    P_ref = ref0["dm"]
    # densities for the perturbed / non-idempotent starts
    idx = scfmon.real_orbital_index(Z)
    Mreal = np.zeros(P_ref.shape[-2:], bool)
    Mreal[np.ix_(idx, idx)] = True
    gN = np.random.default_rng(case["gseed"] + 5)
    N = gN.normal(0.0, 0.03, P_ref.shape)
    N = 0.5 * (N + np.swapaxes(N, -1, -2)) * Mreal
    P_pert = P_ref + N
    far = run.single_point(Z, Xd + gN.normal(0.0, 0.12, Xd.shape), run.settings(method, eps=1e-8, converger=(2,)),
                           charges=q, mult=m)["dm"]
    P_non = 0.6 * P_ref + 0.4 * far

    def upd(name, val, tol):
        r = float(val) / tol
        if not np.isfinite(r):
            r = 1e300
        if name not in margins or r > margins[name]:
            margins[name] = r
        return r > 1.0

    ksa_log = {}
    em0 = np.asarray(ref0["e_mo"][0])[:norb]
    width = float(em0.max() - em0.min())

    def ksa_reader(loc):
        ksa_log["n"] = ksa_log.get("n", 0) + 1
        if torch.is_tensor(loc.get("err")):
            ksa_log["err"] = float(loc["err"].detach().reshape(-1)[0])
        if torch.is_tensor(loc.get("dDS")):
            ksa_log["resid_max"] = float(loc["dDS"].detach().abs().max())
        ksa_log["COUNTER"] = int(loc.get("COUNTER", -1))

    def candidate(c, Xc, P0):
        """one monitored candidate call -> (out | None, note)"""
        sett = run.settings(method, eps=c["eps"], converger=tuple(c["conv"]), sp2=c.get("sp2"), uhf=bool(c.get("uhf")))
        if P0 is not None:
            P0 = np.array(P0, copy=True)
            if c.get("uhf") and P0.ndim == 3:
                P0 = np.stack([0.5 * P0, 0.5 * P0], axis=1)
        lw = scfmon.standard_watch(int(sl.MAX_ITER), {"SP2": 200}, 300, extra=False)
        if hasattr(sl, "scf_forward3"):
            lw.on_return(sl.scf_forward3, ksa_reader)
        ksa_log.clear()
        elog = scfmon.ErrorLog(c["eps"])
        state["elog"] = elog
        mon["candidates_run"] += 1
        try:
            elog.install()
            lw.install()
            try:
                return run.single_point(Z, Xc, sett, charges=q, mult=m, P0=P0, keep=True), None
            except scfmon.FailPoint:
                mon["failpoints_fired"] += 1
                return None, "failpoint (termination is C03's domain)"
            except Exception as exc:
                mon["candidates_raised"] += 1
                return None, "raised %s" % type(exc).__name__
        finally:
            lw.uninstall()
            elog.uninstall()
            mon["get_error_calls"] += elog.calls

    def stability(out, Xk):
        """-> ('unstable'|'stable'|'undecided', info): is the converged closed-shell solution a minimum?"""
        dm = np.asarray(out["dm"])
        if dm.ndim == 3:
            try:
                st = scfmon.r1_singlet_stability(method, Z, Xk, dm[0])
            except Exception:
                st = None
            if st is not None:
                mon["stability_analyses"] += 1
                lam, g_ = st
                return ("unstable" if lam < -1e-3 else ("stable" if lam > 1e-3 else "undecided")), \
                    {"how": "lowest eigenvalue of the singlet stability matrix A+B (reference model R1)", "lambda_min_eV": lam, "gap_eV": g_}
            # no reference model for this method: does a damped SCF map, restarted next to the solution, leave it?
            gS = np.random.default_rng(case["gseed"] + 23)
            Nn = gS.normal(0.0, 0.01, dm.shape)
            Nn = 0.5 * (Nn + np.swapaxes(Nn, -1, -2)) * Mreal
            try:
                o2 = run.single_point(Z, Xk, run.settings(method, eps=1e-9, converger=(0, 0.3)), charges=q, mult=m, P0=dm + Nn)
            except Exception:
                return "undecided", {"how": "restart test raised"}
            mon["stability_analyses"] += 1
            if not bool(np.any(o2["notconverged"])) and float(o2["Etot"][0]) < float(out["Etot"][0]) - DISTINCT_E:
                return "unstable", {"how": "damped SCF restarted 0.01 away from the solution left it", "E_after": float(o2["Etot"][0])}
            return "undecided", {"how": "damped SCF restarted 0.01 away from the solution stayed"}
        return "undecided", {"how": "unrestricted solution: no stability analysis available"}

    def clause_a(out, eps_c, alpha_c, s2, like=None, Xk=None):
        """C03 clause (A) on a returned density: is it a self-consistent stationary point of the *restricted closed-shell*
        functional within the C03 bounds -- judged with the repository's Fock rebuild AND (MNDO/AM1/PM3) with the
        independent reference model?  An unrestricted result without spin density is judged through its total density
        (rebuilt on the molecule object of `like`, a restricted run at the same geometry).  -> (bool | None, residuals)"""
        try:
            Pt = out["_mol"].dm.detach()
            molr = out["_mol"]
            if Pt.dim() == 4:
                Pt = (Pt[:, 0] + Pt[:, 1]).contiguous()
                molr = like["_mol"]
            Fk, Hk = scfmon.rebuild_fock(molr, Pt)
            nel = int(sum(gen.VALENCE[z] for z in Z) - q)
            Er = 0.5 * float(np.sum(Pt.numpy()[0] * (Hk[0] + Fk[0])))
            r = scfmon.residuals(Z, Pt.numpy()[0], Fk[0], Hk[0], nel, nel // 2, nel - nel // 2, Er, out["q"][0], q)
            r1 = scfmon.r1_residuals(method, Z, Xk, Pt.numpy()[0], Fk[0], nel, nel // 2, nel - nel // 2) if Xk is not None else None
        except Exception as exc:
            return None, {"error": repr(exc)}
        ee = max(eps_c, s2)
        A_ = 1.0 / (1.0 - alpha_c)
        gf = max(1.0, 1.0 / max(r["gap"] or 1.0, 1e-3))
        ok = (r["idempotency"] <= 1e-12 + 50.0 * ee * A_ and r["commutator"] <= 1e-10 + 5e3 * ee * A_
              and r["reproduction"] <= 1e-10 + 300.0 * ee * A_ * gf and r["trace"] <= 1e-6 + 10.0 * s2)
        res = {k: r[k] for k in ("idempotency", "commutator", "reproduction", "trace", "gap")}
        if r1 is not None:
            res["commutator_R1"] = r1["commutator"]
            ok = ok and r1["commutator"] <= 4.0 * r1["nbas"] * scfmon.R1_DF + 5e3 * ee * A_
        return bool(ok), res

    def distinct(c, out, ref, where):
        """a converged result whose energy is far (> 1e-4 eV and > 100 x bound) from the reference.  Returns "compare" when
        it is NOT another self-consistent closed-shell state (then the ordinary eps-proportional clauses judge it), else
        "judged":  (i) flagged converged but not self-consistent  -> `converged-result-not-selfconsistent`;
        (ii) a genuine stationary point: violation iff the higher of the two states is a saddle point while the lower
        is a minimum (the molecule then has ONE stable closed-shell solution and a solver path left it); two minima, or
        a symmetry-broken unrestricted state below the restricted one => outside the property's premise (counted)."""
        Xk = Xd + where * delta
        alpha_c = float(c["conv"][1]) if c["conv"][0] == 0 else 0.0
        dm = np.asarray(out["dm"])
        if dm.ndim == 4:
            spin = float(np.abs(dm[0, 0] - dm[0, 1]).max())
            if spin > 1e-6:
                if float(out["Etot"][0]) < float(ref["Etot"][0]) - DISTINCT_E:
                    mon["uhf_broken_symmetry_below_rhf"] += 1     # RHF->UHF instability: outside the premise
                    return "judged"
                return "compare"
        sc_out, res_out = clause_a(out, float(c["eps"]), alpha_c, scfmon.sp2_eff(c.get("sp2")), like=ref, Xk=Xk)
        pulay = c["conv"][0] == 2
        info = {"candidate": c, "where": where, "E_candidate": float(out["Etot"][0]), "E_reference": float(ref["Etot"][0]),
                "gap_candidate": float(np.asarray(out["gap"]).reshape(-1)[0]), "gap_reference": float(np.asarray(ref["gap"]).reshape(-1)[0]),
                "candidate_selfconsistent(C03 clause A)": sc_out, "candidate_residuals": res_out,
                "species": Z, "coords": Xk.tolist(), "charge": q}
        if sc_out is not True:
            if pulay and dm.ndim == 3 and sc_out is False and res_out.get("idempotency", 1.0) <= 1e-6 and res_out.get("reproduction", 0.0) > 0.1:
                # flagged converged on a non-aufbau determinant (C03's finding, seen from C04)
                mon["distinct_solutions_judged"] += 1
                viol.append({"clause": "converged-result-not-selfconsistent",
                             "mech": "pulay-converged-flag-on-non-selfconsistent-density", "detail": info})
                return "judged"
            return "compare"
        mon["distinct_solutions_judged"] += 1
        hi_is_out = float(out["Etot"][0]) > float(ref["Etot"][0])
        o2 = out if dm.ndim == 3 else dict(out, dm=(dm[:, 0] + dm[:, 1]))
        hi, lo = (o2, ref) if hi_is_out else (ref, o2)
        s_hi, i_hi = stability(hi, Xk)
        s_lo, i_lo = stability(lo, Xk)
        info["higher_solution"] = dict(i_hi, verdict=s_hi)
        info["lower_solution"] = dict(i_lo, verdict=s_lo)
        if s_hi == "unstable" and (s_lo == "stable" or (s_lo == "undecided" and i_lo.get("how", "").startswith("damped"))):
            if hi_is_out:
                # Pulay cell AND self-consistent (clause A holds) AND another energy: DIIS finds stationary points, not minima
                viol.append({"clause": "converged-to-unstable-scf-solution",
                             "mech": "pulay-lands-on-other-scf-stationary-point" if pulay else None, "detail": info})
            else:
                viol.append({"clause": "reference-on-unstable-scf-solution", "mech": None, "detail": info})
        elif s_hi == "stable" and s_lo == "stable":
            mon["distinct_solutions_both_stable"] += 1
        else:
            mon["distinct_solutions_undecided"] += 1
        return "judged"

    def judge(c, out, ref, where, errs_store=None):
        rho = state["elog"].contraction() if state.get("elog") is not None else 0.0
        ee, A, B = _bounds(c, rho, width, state.get("lam", 0.0))
        err_rho = rho
        tag = _conv_tag(c["conv"])
        if bool(np.any(out["notconverged"])):
            mon["candidates_not_converged"] += 1
            return None
        if not _finite(out):
            mon["candidates_nonfinite"] += 1
            viol.append({"clause": "non-finite-result-flagged-converged",
                         "mech": "ksa-nan-density-flagged-converged" if c["conv"][0] == 3 else None,
                         "detail": {"candidate": c, "where": where, "species": Z, "coords": (Xd + where * delta).tolist(),
                                    "charge": q, "Etot": repr(out["Etot"])}})
            return None
        err = _errors(out, ref, norb)
        _, _, B0 = _bounds(c, 0.98, width, 0.98)
        if err["E"] > max(DISTINCT_E, 100.0 * B0["E"]) and distinct(c, out, ref, where) == "judged":
            return None
        mon["candidates_compared"] += 1
        if c.get("sp2"):
            mon["sp2_candidates_compared"] += 1
        if c.get("uhf"):
            mon["uhf_candidates_compared"] += 1
        if c["start"] != "cold":
            mon["restart_candidates_compared"] += 1
        if c["conv"][0] == 3:
            mon["ksa_candidates_compared"] += 1
        cells.append("%s/%s/%s/%s/eps%g/%s" % (method, tag, "sp2=%g" % c["sp2"] if c.get("sp2") else "diag",
                                               "uhf" if c.get("uhf") else "rhf", c["eps"], c["start"]))
        # KSA satisfied its own energy-only rule while the density residual of its last iteration is above the
        # element-wise density criterion the other solvers must meet  -> mechanism of DESIGN §7 row 16
        ksa_pred = bool(c["conv"][0] == 3 and ksa_log.get("n") and ksa_log.get("err", 9.0) <= c["eps"]
                        and ksa_log.get("resid_max", 0.0) > scfmon.K_MAX * c["eps"])
        err["_ksa_energy_only"] = ksa_pred
        err["_rho"] = err_rho
        for k in ("E", "F", "q", "emo"):
            grp = "ksa" if c["conv"][0] == 3 else ("sp2" if c.get("sp2") else ("uhf" if c.get("uhf") else "diag"))
            if upd("d%s/%s" % (k, grp), err[k], B[k]):
                mech = "ksa-stops-on-energy-only" if ksa_pred else None
                viol.append({"clause": "d" + k, "mech": mech,
                             "detail": {"candidate": c, "where": where, "error": err[k], "bound": B[k],
                                        "ratio": err[k] / B[k], "eps_eff": ee, "A": A, "rho_observed": rho, "all_errors": err,
                                        "ksa_last": dict(ksa_log) if c["conv"][0] == 3 else None,
                                        "species": Z, "coords": (Xd + where * delta).tolist(), "charge": q}})
        return err

    mono = {}
    for chi, hi, lo, k in pending:
        distinct(chi, hi, lo, k)
    del pending[:]
    for ci, c in enumerate(case["cands"]):
        if c["start"] == "sequence":
            Pprev = None
            for k in range(1, 6):
                out, note = candidate(c, Xd + k * delta, Pprev if k > 1 else reference(0)["dm"])
                if out is None:
                    break
                err = judge(c, out, reference(k), k)
                if err is None:
                    break
                mon["sequence_points_compared"] += 1
                Pprev = out["dm"]
                if Pprev.ndim == 4:      # UHF density restarts as is
                    pass
            continue
        P0 = {"cold": None, "perturbed": P_pert, "nonidem": P_non}[c["start"]]
        out, note = candidate(c, Xd, P0)
        if out is None:
            continue
        err = judge(c, out, ref0, 0)
        if err is not None:
            key = (repr(c["conv"]), c.get("sp2"), bool(c.get("uhf")), c["start"])
            mono.setdefault(key, {})[c["eps"]] = (err, c)

    for chi, hi, lo, k in pending:      # reference paths that disagreed at a sequence point
        distinct(chi, hi, lo, k)
    # monotonicity in eps: for eps2 < eps1, err(eps2) <= max(err(eps1), bound(eps2))
    for key, d in mono.items():
        es = sorted(d, reverse=True)
        for i in range(len(es)):
            for j in range(i + 1, len(es)):
                e1, e2 = es[i], es[j]
                err1, _ = d[e1]
                err2, c2 = d[e2]
                _, _, B2 = _bounds(c2, err2.get("_rho", 0.0), width, state.get("lam", 0.0))
                mon["monotonicity_pairs"] += 1
                for k in ("E", "F", "q", "emo"):
                    lim = max(err1[k], B2[k])
                    if upd("monotone_" + k, err2[k], lim):
                        viol.append({"clause": "monotonicity-" + k,
                                     "mech": "ksa-stops-on-energy-only" if err2.get("_ksa_energy_only") else None,
                                     "detail": {"candidate": c2, "eps_loose": e1, "eps_tight": e2, "err_loose": err1[k],
                                                "err_tight": err2[k], "bound_tight": B2[k], "species": Z,
                                                "coords": Xd.tolist()}})
    return {"nontrivial": mon["candidates_compared"] > 0, "violations": viol, "margins": margins, "monitors": mon,
            "cells": cells, "obs": {"gap": gap, "lambda_slowest_scf_mode": state.get("lam"), "Etot_ref": float(ref0["Etot"][0]), "n_candidates": len(case["cands"]),
                                    "compared": mon["candidates_compared"], "worst": margins}}
