"""C05 - batching, padding, ordering and same-element relabelling are transparent.

Oracle: metamorphic.  Every member of a generated batch is first computed alone (batch of one, no
padding); then the batch is run in many layouts (all permutations for <= 4 members, padding width
+0..+3, padding coordinates 0 / random / 1e6 / coincident with a real atom) and row k of every layout is
compared with the alone result of that molecule.  Layouts that differ ONLY in the numbers stored in
padding slots must agree exactly.  Exchanging the coordinates of two atoms of the same element must
permute the per-atom outputs and leave everything else alone.  CIS: homogeneous (`rcis_batch`) and
mixed (`rcis_any_batch`) batches against the alone result.  MD: a 12-step NVE run with user-supplied
velocities, per-step HDF5 rows of molecule k in the batch against the run of molecule k alone; padding
slots must come back untouched.

Monitors: sys.monitoring loop counter + failpoint on `SP2` (a non-terminating SP2 loop becomes a
recorded violation instead of a watchdog timeout), wrapper on `Molecular_Dynamics_Basic._zero_com`
(does the call write into padding rows?), wrapper on `rcis_batch` / `rcis_any_batch` (which CIS driver
actually ran)."""
import itertools

import numpy as np

from vlib import gen

PROPERTY = "C05"
RULE = ("case kinds: sp = (batch of 2-6 library molecules with individual distortions, charges and - for UHF cells - "
        "multiplicities; method x converger x SP2 x force mode) run alone and in L layouts (permutation x padding "
        "width x padding value) + a padding-values-only family + a same-element swap; cis = homogeneous / mixed batch "
        "with excited states; md = 12-step NVE run with supplied velocities alone vs in a padded batch.  A case is "
        "non-trivial when at least one batch row was compared with a converged alone run of the same molecule; "
        "distinct by SHA-1 of the case")
ASSUMPTIONS = ["float64 CPU, 1 thread", "scf_eps 1e-10 (SCF noise is 2-3 orders below the 1e-7 eV / 5e-6 eV/A bounds)",
               "SP2 is a deterministic per-row map: SP2 cells are judged with the same scf_eps-derived bounds as "
               "diagonalisation cells, independent of the SP2 tolerance",
               "bitwise equality is demanded only between layouts that differ in padding coordinate values alone",
               "with the per-row mixers [0, alpha] and [1] (no SP2, no Pulay) the SCF of a row is a deterministic per-row "
               "iteration: its cycle count is independent of padding / batch mates (judged at scf_eps >= 1e-6 only, where "
               "round-off cannot flip the stopping test) and alone-vs-batch differences do not scale with scf_eps",
               "excited-state force comparison only when the active root is >= 0.05 eV from its neighbours"]
REQUIRED_MONITORS = ["rows_compared", "padding_only_pairs", "swap_pairs", "cis_rows_compared", "md_rows_compared",
                     "sp2_calls", "perm_layouts", "parser_calls_checked", "equal_norb_batches", "finite_T_batches", "fermi_q_calls",
                     "md_dof_ratio_rows", "md_dof_scale_vel_rows", "scf_cycle_rows_compared", "cis_state_dipole_rows_compared",
                     "cis_all_forces_rows_compared", "excited_fast_row_before_slow_row_batches",
                     "cisall_batches_after_heap_poisoning"]
# thorough tier: cases not started after this many seconds are skipped and reported (env override for smoke tests)
BUDGET_S = {"thorough": float(__import__("os").environ.get("VERIF_C05_BUDGET", "1700"))}
CASE_TIMEOUT = 900.0

EPS = 1e-10
A_E, A_F, A_Q, A_EMO, A_EXC, A_MU = 1e-7, 5e-6, 1e-7, 1e-6, 1e-6, 5e-6
K_E, K_F, K_Q, K_EMO = 20.0, 2e3, 300.0, 2e3          # C04 algebra (DESIGN 6/C04), per run; two runs -> factor 2
TOL_SWAP_SCALAR = 1e-9
TOL_MD_X = 1e-7
TOL_MD_V = 1e-7
TOL_MD_E = 1e-6
SP2_BOUND = 500          # normal <= 40 iterations per call (measured max 37)
PADVALS = [0.0, "random", 1e6, "coincident"]

MECH_SP2 = "sp2-padded-batch-anion-nonterminating"
MECH_COM = "com-removal-moves-padding"
MECH_CIS_PAD = "rcis-batch-zero-padding-shape-crash"
MECH_DIIS = "pulay-batch-global-diis-reset"


# ---------------------------------------------------------------------------------------------
# case generation (parent process: numpy only)
# ---------------------------------------------------------------------------------------------
def _pool(method, uhf):
    names = gen.names_for(method, gen.CLOSED_NEUTRAL + gen.IONS + (gen.RADICALS if uhf else []))
    return [n for n in names if n != "C6H6"]


def _pick_members(g, method, uhf, n, need_small=True, anion_ok=True):
    names = _pool(method, uhf)
    if not anion_ok:
        names = [x for x in names if gen.molecule(x)[2] >= 0]
    if need_small:
        names = [x for x in names if len(gen.molecule(x)[0]) <= 7]
    idx = g.permutation(len(names))[:n] if n <= len(names) else g.integers(0, len(names), n)
    mem = [{"mol": names[int(i)], "geom_seed": int(g.integers(0, 2**31))} for i in idx]
    if uhf and not any(gen.molecule(m["mol"])[3] != 1 for m in mem):
        rad = [x for x in names if gen.molecule(x)[3] != 1]
        if rad:
            mem[0] = {"mol": rad[int(g.integers(0, len(rad)))], "geom_seed": int(g.integers(0, 2**31))}
    # never two identical (mol) entries with identical seeds; duplicates of a molecule are fine (different geometry)
    return mem


def _layouts(g, n, tier, maxperm):
    perms = list(itertools.permutations(range(n)))
    exhaustive = len(perms) <= maxperm
    if not exhaustive:
        keep = [perms[0]] + [perms[int(i)] for i in g.permutation(len(perms) - 1)[:maxperm - 1] + 1]
        perms = keep
    off = int(g.integers(0, 16))
    out = []
    for i, p in enumerate(perms):
        c = (i + off) % 16
        out.append({"perm": list(p), "pad": c % 4, "padval": PADVALS[(c // 4 + c) % 4], "seed": int(g.integers(0, 2**31))})
    return out, exhaustive


def _swap_candidates(members):
    out = []
    for k, m in enumerate(members):
        Z = gen.molecule(m["mol"])[0]
        for a in range(len(Z)):
            for b in range(a + 1, len(Z)):
                if Z[a] == Z[b]:
                    out.append((k, a, b))
    return out


def _sp_case(g, tier, method, conv, sp2, uhf, grad, n, maxperm, anion_ok=True):
    mem = _pick_members(g, method, uhf, n, anion_ok=anion_ok)
    lay, exh = _layouts(g, n, tier, maxperm)
    c = {"kind": "sp", "method": method, "conv": list(conv), "sp2": sp2, "uhf": uhf, "grad": grad, "members": mem,
         "layouts": lay, "perms_exhaustive": exh,
         "padfam": {"perm": [int(i) for i in g.permutation(n)], "pad": int(g.integers(1, 4)),
                    "seeds": [int(g.integers(0, 2**31)) for _ in range(2)]}}
    sw = _swap_candidates(mem)
    if sw:
        k, a, b = sw[int(g.integers(0, len(sw)))]
        c["swap"] = {"member": k, "atoms": [a, b], "pad": int(g.integers(0, 3)),
                     "padval": PADVALS[int(g.integers(0, 4))], "seed": int(g.integers(0, 2**31))}
    return c


def _split(name):
    Z = gen.molecule(name)[0]
    return (sum(1 for z in Z if z > 1), sum(1 for z in Z if z == 1))


def _equal_norb_cases(g, tier):
    """Named cells: batches whose members ALL have the same number of basis functions 4*nHeavy + nHydro but a different
    heavy/hydrogen split (CH4|CO, C2H4|CO2, C2H6|HCOOH ...), so that any 'all molecules alike' fast path keyed on the
    packed size instead of on (nHeavy, nHydro) is driven; plus triples with one member of another size, where the
    equal-size pair is what remains active once the third molecule has converged.  Both orders are always run
    (row 0 of such a batch is laid out correctly by construction)."""
    groups = {8: (["CH4", "SiH4", "NH4+"], ["CO", "N2", "F2", "Cl2", "LiF", "NaCl", "NO+", "CN-"]),
              12: (["C2H4", "CH3OH", "CH3SH"], ["CO2", "N2O", "SO2"]),
              14: (["C2H6"], ["HCOOH"])}
    rad8 = ["O2t", "NO."]
    if tier == "quick":
        plan = [("AM1", (2,), None, False, 8, None), ("PM3", (1,), None, False, 8, None), ("MNDO", (0, 0.3), None, False, 12, None),
                ("AM1", (1,), None, True, 8, "radical"), ("PM3", (2,), None, False, 14, None), ("AM1", (2,), 1e-7, False, 8, None),
                ("AM1", (0, 0.3), None, False, 8, "third"), ("PM6_SP", (1,), None, False, 8, None),
                ("PM3", (0, 0.2), None, True, 12, None), ("MNDO", (2,), None, False, 12, "third")]
    else:
        plan = []
        for method in ("AM1", "PM3", "MNDO", "PM6_SP"):
            for conv, sp2 in (((0, 0.3), None), ((1,), None), ((2,), None), ((2,), 1e-7), ((1,), 1e-5)):
                for norb in (8, 12, 14):
                    plan.append((method, conv, sp2, False, norb, None))
                plan.append((method, conv, sp2, False, 8, "third"))
                plan.append((method, conv, sp2, False, 12, "third"))
            for conv in ((0, 0.3), (1,)):
                plan.append((method, conv, None, True, 8, "radical"))
                plan.append((method, conv, None, True, 8, None))
                plan.append((method, conv, None, True, 12, None))
    out = []
    for method, conv, sp2, uhf, norb, extra in plan:
        a = [x for x in groups[norb][0] if gen.available(x, method)]
        b = [x for x in groups[norb][1] if gen.available(x, method)]
        if extra == "radical":
            b = [x for x in rad8 if gen.available(x, method)]
        if not a or not b:
            continue
        names = [a[int(g.integers(0, len(a)))], b[int(g.integers(0, len(b)))]]
        if extra == "third":
            others = [x for x in ("H2O", "NH3", "HCN", "C2H2", "HF") if gen.available(x, method)]
            names.append(others[int(g.integers(0, len(others)))])
        mem = [{"mol": n, "geom_seed": int(g.integers(0, 2**31))} for n in names]
        lay, exh = _layouts(g, len(mem), tier, 6)
        c = {"kind": "sp", "method": method, "conv": list(conv), "sp2": sp2, "uhf": uhf, "grad": "autodiff", "members": mem,
             "layouts": lay, "perms_exhaustive": exh, "tag": "equal-norb",
             "padfam": {"perm": [int(i) for i in g.permutation(len(mem))], "pad": int(g.integers(1, 4)),
                        "seeds": [int(g.integers(0, 2**31)) for _ in range(2)]}}
        out.append(c)
    return out


def _finite_T_cases(g, tier):
    """Named cells: finite electronic temperature (scf_converger [0, alpha, "T_el", T] -> Fermi_Q builds the density), every
    molecule alone vs in a padded batch, all orders.  The members that matter are the ones with padding orbital columns:
    anions whose chemical potential lies above 0 eV (CH3-, NH2-, OH-, CN- next to a larger molecule) and neutral
    molecules at high T_el."""
    anion = {"CH3-": {"mol": "CH3.", "q": -1, "mult": 1}, "NH2-": {"mol": "NH2.", "q": -1, "mult": 1},
             "OH-": {"mol": "OH-"}, "CN-": {"mol": "CN-"}}
    if tier == "quick":
        plan = [("AM1", 0.3, 1500.0, ["CH3-", "CH4"]), ("PM3", 0.3, 1500.0, ["NH2-", "NH3"]), ("MNDO", 0.2, 300.0, ["OH-", "CH4"]),
                ("AM1", 0.3, 5000.0, ["H2O", "CH3OH", "HCN"]), ("PM3", 0.5, 5000.0, ["NH3", "C2H4"]),
                ("AM1", 0.3, 1500.0, ["CN-", "CH3OH"])]
    else:
        plan = []
        for method in ("AM1", "PM3", "MNDO", "PM6_SP"):
            for T in (300.0, 1500.0, 5000.0):
                for names in (["CH3-", "CH4"], ["NH2-", "NH3"], ["OH-", "CH4"], ["CN-", "CH3OH"], ["OH-", "H2O", "C2H4"],
                              ["H2O", "CH3OH", "HCN"], ["NH3", "C2H4"], ["CH3-", "NH2-", "C2H6"]):
                    plan.append((method, [0.2, 0.3, 0.5][len(plan) % 3], T, names))
    out = []
    for method, alpha, T, names in plan:
        mem = []
        for n in names:
            d = dict(anion.get(n, {"mol": n}))
            if not gen.available(d["mol"], method):
                d = None
                break
            d["geom_seed"] = int(g.integers(0, 2**31))
            mem.append(d)
        if not mem or d is None:
            continue
        lay, exh = _layouts(g, len(mem), tier, 6)
        out.append({"kind": "sp", "method": method, "conv": [0, alpha, "T_el", T], "sp2": None, "uhf": False, "grad": "autodiff",
                    "members": mem, "layouts": lay, "perms_exhaustive": exh, "tag": "finite-T",
                    "padfam": {"perm": [int(i) for i in g.permutation(len(mem))], "pad": int(g.integers(1, 4)),
                               "seeds": [int(g.integers(0, 2**31)) for _ in range(2)]}})
    return out


def _loose_eps_cases(g, tier):
    """Named cells: loose SCF thresholds with the per-row mixers ([0, alpha] and [1]; Pulay is batch-coupled and stays out).
    With these solvers the SCF of a row is a deterministic per-row iteration, so (a) the number of SCF cycles of a row must
    not depend on padding / batch mates (judged at scf_eps >= 1e-6, where a round-off induced flip has probability < 1e-7
    per row) and (b) alone-vs-batch values keep the ABSOLUTE bounds of the tight cells - they must not scale with scf_eps.
    Measured on main over the whole quick+thorough sp workload of these solvers at scf_eps 1e-5/1e-6/1e-7 (365 cases,
    16170 rows, RHF and UHF): 0 cycle-count differences, value differences <= 1e-12 eV / 2e-12 eV/A (round-off)."""
    if tier == "quick":
        plan = [("AM1", (0, 0.3), False, 1e-5), ("PM3", (1,), False, 1e-5), ("MNDO", (0, 0.5), False, 1e-6), ("AM1", (1,), True, 1e-5),
                ("PM3", (0, 0.2), True, 1e-6), ("PM6_SP", (1,), False, 1e-7), ("MNDO", (1,), False, 1e-6), ("AM1", (0, 0.1), False, 1e-7)]
    else:
        plan = [(m, c, u, e) for m in ("AM1", "PM3", "MNDO", "PM6_SP") for c in ((0, 0.1), (0, 0.3), (0, 0.6), (1,))
                for u in (False, True) for e in (1e-5, 1e-6, 1e-7)]
    out = []
    for method, conv, uhf, eps in plan:
        mem = _pick_members(g, method, uhf, 3)
        lay, exh = _layouts(g, len(mem), tier, 6)
        out.append({"kind": "sp", "method": method, "conv": list(conv), "sp2": None, "uhf": uhf, "grad": "autodiff", "members": mem,
                    "layouts": lay, "perms_exhaustive": exh, "tag": "loose-eps", "eps": eps,
                    "padfam": {"perm": [int(i) for i in g.permutation(len(mem))], "pad": int(g.integers(1, 4)),
                               "seeds": [int(g.integers(0, 2**31)) for _ in range(2)]}})
    return out


def _cisall_cases(g, tier):
    """Named cells: EVERY published excited-state output alone vs in a same-species batch of 2-3 distorted geometries, several
    orders: with do_all_forces=True the per-state forces (all_forces), relaxed / unrelaxed state dipoles of every state
    (all_cis_relaxed_diploles, all_cis_unrelaxed_diploles [sic], cis_state_*_dipole), transition dipoles, oscillator
    strengths, excitation energies, ground-state outputs."""
    names = ["CH2O", "H2O", "HCN", "NH3", "C2H4", "HNO", "CH3F", "HCOOH", "CO", "C2H2"]
    if tier == "quick":
        plan = [("AM1", "cis", 2, 0), ("PM3", "cis", 3, 0), ("MNDO", "rpa", 2, 0), ("AM1", "cis", 2, 1)]
    else:
        plan = [(m, e, n, pad) for m in ("AM1", "PM3", "MNDO") for e in ("cis", "rpa") for n in (2, 3) for pad in (0, 1, 2)]
    out = []
    for method, em, n, pad in plan:
        av = [x for x in names if gen.available(x, method)]
        nm = av[int(g.integers(0, len(av)))]
        mem = [{"mol": nm, "geom_seed": int(g.integers(0, 2**31))} for _ in range(n)]
        perms = list(itertools.permutations(range(n)))
        orders = [list(perms[int(i)]) for i in g.permutation(len(perms))[:3]]
        out.append({"kind": "cisall", "method": method, "exc_method": em, "members": mem, "n_states": 4, "judged_states": 3,
                    "orders": orders, "pad": pad, "padval": PADVALS[int(g.integers(0, 4))], "seed": int(g.integers(0, 2**31))})
    return out


def _symdist_cases(g, tier):
    """Named cells: same-species excited-state batches (RPA and CIS) built from ONE undistorted, high-symmetry library geometry
    (its Davidson iteration converges fast) and one or two distorted ones (slower), in ALL orders: excitation energies and
    ground-state outputs alone vs batch.  Batch-coupled bookkeeping of per-row solver state (subspace sizes, finished rows)
    only shows when a faster row sits before a slower one."""
    names = ["C2H4", "CH2O", "H2O", "NH3", "C2H2", "CO2", "HCN", "CH4"]
    if tier == "quick":
        plan = [("AM1", "rpa", "C2H4", 2), ("PM3", "rpa", None, 3), ("AM1", "cis", None, 2), ("MNDO", "rpa", None, 2), ("AM1", "rpa", "C2H4", 3)]
    else:
        plan = [(m, e, None, n) for m in ("AM1", "PM3", "MNDO") for e in ("rpa", "cis", "rpa") for n in (2, 3)] + [("AM1", "rpa", "C2H4", 2)]
    out = []
    for method, em, fixed, n in plan:
        av = [x for x in names if gen.available(x, method)]
        nm = fixed or av[int(g.integers(0, len(av)))]
        mem = [{"mol": nm, "geom_seed": int(g.integers(0, 2**31)), "sigma": 0.0}] + \
              [{"mol": nm, "geom_seed": int(g.integers(0, 2**31)), "sigma": float(g.choice([0.02, 0.05]))} for _ in range(n - 1)]
        out.append({"kind": "cisall", "tag": "sym-dist", "energies_only": True, "method": method, "exc_method": em, "members": mem,
                    "n_states": 3, "judged_states": 3, "orders": [list(p) for p in itertools.permutations(range(n))], "pad": 0,
                    "padval": 0.0, "seed": int(g.integers(0, 2**31))})
    return out


def _md_dof_cases(g, tier):
    """Named cells: a non-linear molecule alone vs batched with a diatomic (both orders), remove_com=('angular', 1):
    (a) Temp > 0, velocities drawn by the engine - the draws differ between the two runs (different tensor shapes), so
        what is compared is the per-molecule constant T(s)/Ek(s) = 2/(n_dof k_B) and T(0) = Temp;
    (b) preset velocities + scale_vel=(3, T): the whole trajectory and the thermo rows."""
    nonlin = ["H2O", "NH3", "CH4", "CH2O"]
    dia = ["H2", "HF", "CO", "N2", "HCl"]
    if tier == "quick":
        plan = [("AM1", "drawn", 0), ("PM3", "scale_vel", 1), ("AM1", "scale_vel", 0), ("MNDO", "drawn", 1)]
    else:
        plan = [(m, mode, o) for m in ("AM1", "PM3", "MNDO", "PM6_SP") for mode in ("drawn", "scale_vel", "preset") for o in (0, 1)]
    out = []
    for method, mode, order in plan:
        a = [x for x in nonlin if gen.available(x, method)]
        b = [x for x in dia if gen.available(x, method)]
        mem = [{"mol": a[int(g.integers(0, len(a)))], "geom_seed": int(g.integers(0, 2**31))},
               {"mol": b[int(g.integers(0, len(b)))], "geom_seed": int(g.integers(0, 2**31))}]
        if order:
            mem = mem[::-1]
        c = {"kind": "md", "method": method, "members": mem, "pad": int(g.integers(0, 2)), "padval": PADVALS[int(g.integers(0, 4))],
             "remove_com": ["angular", 1], "steps": 8, "dt": 0.5, "vel_seed": int(g.integers(0, 2**31)), "zero_momentum": False,
             "padfam": False, "seed": int(g.integers(0, 2**31)), "tag": "md-dof", "mode": mode}
        if mode == "drawn":
            c["temp"] = float(g.choice([150.0, 300.0, 600.0]))
        if mode == "scale_vel":
            c["scale_vel"] = [3, float(g.choice([200.0, 400.0]))]
        out.append(c)
    return out


def gen_cases(tier, seed):
    g = gen.rng("C05", tier)
    cases = []
    if tier == "quick":
        md_plan = [("AM1", 3, None, False), ("PM3", 2, ["angular", 1], False), ("AM1", 2, ["linear", 2], True)]
        cis_plan = [("AM1", "homog", 3, 0, 0), ("AM1", "mixed", 3, 1, 0), ("PM3", "mixed", 2, 0, 0),
                    ("AM1", "homog", 2, 0, 1), ("MNDO", "homog", 2, 2, 0), ("PM3", "mixed", 3, 2, 0)]
        # (method, conv, sp2, uhf, grad, nmembers, count)
        sp_plan = [("AM1", (2,), None, False, "autodiff", 4, 2), ("PM3", (2,), None, False, "analytical", 4, 1),
                   ("AM1", (2,), 1e-9, False, "autodiff", 4, 1), ("PM3", (1,), 1e-5, False, "autodiff", 3, 2),
                   ("MNDO", (0, 0.3), None, False, "numerical", 3, 2), ("AM1", (1,), None, True, "autodiff", 4, 1),
                   ("PM3", (0, 0.2), None, True, "analytical", 3, 2), ("PM6_SP", (2,), None, False, "autodiff", 3, 2),
                   ("MNDO", (2,), 1e-7, False, "analytical", 3, 2), ("AM1", (1,), None, False, "analytical", 5, 1),
                   ("PM3", (2,), None, False, "autodiff", 6, 1), ("AM1", (0, 0.5), None, False, "autodiff", 2, 3),
                   ("PM6", (1,), None, False, "autodiff", 2, 1), ("MNDO", (1,), None, True, "autodiff", 2, 2),
                   ("AM1", (2,), 1e-9, False, "analytical", 2, 3), ("PM6_SP", (1,), 1e-7, False, "autodiff", 3, 1)]
        maxperm = 24
    else:
        md_plan = []
        for i in range(60):
            md_plan.append((["AM1", "PM3", "MNDO", "PM6_SP"][i % 4], 2 + i % 3,
                            [None, ["angular", 1], ["linear", 2], ["angular", 3]][(i // 4) % 4], bool(i % 2)))
        cis_plan = []
        for i in range(48):
            mode = ["homog", "mixed"][(i // 3) % 2]
            # an excited active state (analytical S_k gradient) is documented to need a homogeneous batch (C18's guard)
            cis_plan.append((["AM1", "PM3", "MNDO"][i % 3], mode, 2 + i % 3, i % 4, 1 if (i % 4 == 0 and mode == "homog") else 0))
        sp_plan = []
        combos = []
        for method in ("AM1", "PM3", "MNDO", "PM6_SP"):
            for conv in ((2,), (1,), (0, 0.3), (0, 0.6)):
                for sp2 in (None, 1e-9, 1e-5):
                    for grad in ("autodiff", "analytical", "numerical"):
                        if method == "PM6_SP" and grad != "autodiff":
                            continue
                        combos.append((method, conv, sp2, False, grad))
            for conv in ((1,), (0, 0.3)):
                for grad in ("autodiff", "analytical"):
                    if method == "PM6_SP" and grad != "autodiff":
                        continue
                    combos.append((method, conv, None, True, grad))
        combos.append(("PM6", (1,), None, False, "autodiff"))
        combos.append(("PM6", (0, 0.3), None, False, "autodiff"))
        total = 560
        for i in range(total):
            method, conv, sp2, uhf, grad = combos[i % len(combos)]
            n = [2, 3, 4, 3, 4, 5, 2, 6][(i // len(combos) + i) % 8]
            if method == "PM6":
                n = min(n, 3)
            sp_plan.append((method, conv, sp2, uhf, grad, n, 1))
        maxperm = 24
    for method, n, rc, zero_mom in md_plan:
        mem = _pick_members(g, method, False, n)
        mem = [m for m in mem if len(gen.molecule(m["mol"])[0]) >= 2]
        cases.append({"kind": "md", "method": method, "members": mem, "pad": int(g.integers(0, 3)),
                      "padval": PADVALS[int(g.integers(0, 4))], "remove_com": rc, "steps": 12, "dt": 0.5,
                      "vel_seed": int(g.integers(0, 2**31)), "zero_momentum": zero_mom,
                      "padfam": bool(len(cases) % 2 == 0), "seed": int(g.integers(0, 2**31))})
    cis_names = ["CH2O", "C2H4", "H2O", "NH3", "HCN", "CH3OH", "HCOOH", "CO", "N2", "HNO", "CH3F", "C2H2", "HOOH", "CO2"]
    for method, mode, n, pad, active in cis_plan:
        names = [x for x in cis_names if gen.available(x, method)]
        if mode == "homog":
            nm = names[int(g.integers(0, len(names)))]
            mem = [{"mol": nm, "geom_seed": int(g.integers(0, 2**31))} for _ in range(n)]
        else:
            mem = [{"mol": names[int(i)], "geom_seed": int(g.integers(0, 2**31))} for i in g.permutation(len(names))[:n]]
        cases.append({"kind": "cis", "method": method, "mode": mode, "members": mem, "n_states": int(g.integers(2, 5)),
                      "pad": pad, "padval": PADVALS[int(g.integers(0, 4))], "active": active,
                      "perm": [int(i) for i in g.permutation(n)], "seed": int(g.integers(0, 2**31))})
    # sp cases, larger ones first
    sp = []
    for method, conv, sp2, uhf, grad, n, count in sp_plan:
        for _ in range(count):
            sp.append(_sp_case(g, tier, method, conv, sp2, uhf, grad, n, maxperm))
    # grounding witnesses of DESIGN 7 row 4 (SP2 + padded batch + anion): OH- next to CH4.  Whether the uncapped SP2 loop
    # spins depends on the SCF path (it needs an intermediate Fock matrix with occupied levels above the padding
    # levels at 0 eV); geometry seed 3 was seen to trigger it for all three methods on the tree before the fix.
    wit = [("AM1", 1e-5), ("PM3", 1e-9), ("MNDO", 1e-7)] if tier == "quick" else \
          [(m, t) for m in ("AM1", "PM3", "MNDO") for t in (1e-5, 1e-7, 1e-9)]
    for method, sp2 in wit:
        for gs in ([3] if tier == "quick" else [1, 2, 3, 6, 7]):
            sp.append({"kind": "sp", "method": method, "conv": [2], "sp2": sp2, "uhf": False, "grad": "autodiff",
                       "members": [{"mol": "OH-", "geom_seed": gs}, {"mol": "CH4", "geom_seed": gs + 100}],
                       "layouts": [{"perm": [0, 1], "pad": 0, "padval": 0.0, "seed": 1},
                                   {"perm": [1, 0], "pad": 1, "padval": "random", "seed": 2}],
                       "perms_exhaustive": True, "padfam": {"perm": [0, 1], "pad": 1, "seeds": [3, 4]}})
    sp.sort(key=lambda c: -len(c["layouts"]) * len(c["members"]))
    # drawn last from a generator of their own, so that the cases above are unchanged by this addition
    sp += _equal_norb_cases(gen.rng("C05", tier, "equal-norb"), tier)
    sp += _finite_T_cases(gen.rng("C05", tier, "finite-T"), tier)
    sp += _loose_eps_cases(gen.rng("C05", tier, "loose-eps"), tier)
    cases += _md_dof_cases(gen.rng("C05", tier, "md-dof"), tier)
    cases += _cisall_cases(gen.rng("C05", tier, "cisall"), tier)
    cases += _symdist_cases(gen.rng("C05", tier, "sym-dist"), tier)
    return sp[:3] + cases + sp[3:]


# ---------------------------------------------------------------------------------------------
# worker side
# ---------------------------------------------------------------------------------------------
_G = {}


def setup_worker():
    import seqm.seqm_functions.scf_loop as scf_loop
    import seqm.seqm_functions.SP2 as sp2mod

    from vlib.mon_c05 import DiisResetWatch, LineProbes, LoopGuard

    pr = LineProbes("verif-c05")
    _G["sp2"] = LoopGuard(sp2mod.SP2, bound=SP2_BOUND, name="SP2").attach(pr)
    try:
        _G["diis"] = DiisResetWatch(scf_loop.scf_forward2).attach(pr)
    except Exception as exc:  # noqa: BLE001  (symbol moved: the classifier is simply unavailable)
        _G["diis"] = None
        _G["diis_error"] = repr(exc)
    pr.install()
    _G["probes"] = pr
    # invariant at a hook: everything Parser.forward returns (index maps, pair list, block positions) against an
    # independent plain-loop enumeration, on every call made while a case runs
    import seqm.basics as basics

    from vlib.mon_c05 import MethodWrap, parser_compare, parser_reference

    _G["parser_checks"] = 0
    _G["parser_problems"] = []

    def hook(orig, obj, molecule, *a, **k):
        out = orig(obj, molecule, *a, **k)
        try:
            if float(obj.outercutoff) >= 1e9 and molecule.species.numel() <= 400:
                ref = parser_reference(molecule.species.tolist(), molecule.coordinates.detach().tolist(), cutoff=None)
                probs = parser_compare(out, ref)
                _G["parser_checks"] += 1
                if probs and len(_G["parser_problems"]) < 5:
                    _G["parser_problems"].append({"problems": probs, "species": molecule.species.tolist()})
        except Exception as exc:  # noqa: BLE001  (a monitor must never break the call it watches)
            _G["parser_monitor_error"] = repr(exc)
        return out

    w = MethodWrap(basics.Parser, "forward", hook)
    w.__enter__()
    _G["parser_wrap"] = w
    # per-row SCF cycle counter: get_error is called once per cycle with the mask of the rows still iterating
    _G["iters"] = None
    orig_ge = getattr(scf_loop, "get_error", None)
    if orig_ge is not None:
        def ge(Pold, P, notconverged, *a, **k):
            try:
                it = _G.get("iters")
                n = int(notconverged.shape[0])
                if it is None or len(it) != n:
                    it = np.zeros(n, dtype=np.int64)
                _G["iters"] = it + notconverged.detach().cpu().numpy().astype(np.int64)
            except Exception as exc:  # noqa: BLE001
                _G["iters_monitor_error"] = repr(exc)
            return orig_ge(Pold, P, notconverged, *a, **k)

        scf_loop.get_error = ge
    # call counter on the finite-temperature density builder (evidence that the T_el cells really took that path)
    _G["fermi_q_calls"] = 0
    orig_fq = getattr(scf_loop, "Fermi_Q", None)
    if orig_fq is not None:
        def fq(*a, **k):
            _G["fermi_q_calls"] += 1
            return orig_fq(*a, **k)

        scf_loop.Fermi_Q = fq


def _norb(Z, method):
    n = 0
    for z in Z:
        if z <= 0:
            continue
        if z == 1:
            n += 1
        elif method == "PM6" and 13 <= z <= 17:
            n += 9
        else:
            n += 4
    return n


def _member(m):
    Z, X, q, mult = gen.molecule(m["mol"])
    Xd = gen.distort(X, np.random.default_rng(m["geom_seed"]), sigma=m.get("sigma", 0.05)) if m.get("sigma", 0.05) > 0 else np.array(X, float)
    # generic orientation: every pair vector >= 5 degrees from every Cartesian axis, so that the known frame
    # singularity near +-x (C02's finding) cannot enter any comparison made here
    Xd = Xd - Xd.mean(axis=0)
    R = gen.generic_rotation(Xd, np.random.default_rng(m["geom_seed"] + 7))
    Xd = Xd @ R.T
    # optional overrides (e.g. CH3- / NH2- built from the radical's geometry)
    return {"name": m["mol"] + ("(%+d)" % m["q"] if "q" in m else ""), "Z": Z, "X": Xd, "q": m.get("q", q), "mult": m.get("mult", mult)}


def _settings(case, excited=None, active=0):
    from vlib import run

    grad = case.get("grad", "autodiff")
    return run.settings(case["method"], eps=case.get("eps", EPS), converger=tuple(case.get("conv", (2,))), sp2=case.get("sp2"),
                        uhf=case.get("uhf", False), grad=grad, excited=excited, active_state=active)


def _eps_eff(case):
    # SP2 is a deterministic per-row map of the Fock matrix (padding levels sit at the upper Gershgorin bound and stay
    # empty), so alone-vs-batch agreement must NOT scale with the SP2 tolerance: SP2 cells get the same scf_eps-derived
    # bounds as diagonalisation cells (main shows 5e-13 eV / 6e-9 eV/A / 4e-10 e at SP2 tolerances 1e-5..1e-9).
    e = case.get("eps", EPS)
    if case.get("tag") == "loose-eps":
        e = EPS             # per-row mixers: alone-vs-batch keeps the absolute bounds, it must not scale with scf_eps
    conv = case.get("conv", [2])
    A = 1.0 / (1.0 - conv[1]) if conv[0] == 0 and len(conv) > 1 else 1.0
    return e * A


def _tols(case):
    e = _eps_eff(case)
    return {"E": max(A_E, 2 * K_E * e), "F": max(A_F, 2 * K_F * e), "Q": max(A_Q, 2 * K_Q * e),
            "EMO": max(A_EMO, 2 * K_EMO * e), "MU": max(A_MU, 2 * K_Q * e * 10.0)}


class _Acc:
    def __init__(self):
        self.viol, self.margins, self.mon, self.cells = [], {}, {}, set()

    def count(self, k, n=1):
        self.mon[k] = self.mon.get(k, 0) + n

    def upd(self, name, val, tol):
        r = float(val) / tol
        if not (r == r):
            r = float("inf")
        if name not in self.margins or r > self.margins[name]:
            self.margins[name] = r
        return r > 1.0


def _batch_arrays(mols, pad, padval, seed):
    g = np.random.default_rng(seed)
    S, C = gen.pad_batch([(m["Z"], m["X"]) for m in mols], extra_pad=pad, pad_value=padval, g=g)
    return S, C


def _run(S, C, sett, mols):
    from vlib import run

    _G["iters"] = None
    if len(mols) == 1 and len(S) == 1:
        out = run.single_point(S, C, sett, charges=float(mols[0]["q"]), mult=float(mols[0]["mult"]))
    else:
        out = run.single_point(S, C, sett, charges=[float(m["q"]) for m in mols], mult=[float(m["mult"]) for m in mols])
    out["_iters"] = None if _G.get("iters") is None else _G["iters"].copy()      # SCF cycles per row (get_error wrapper)
    return out


def _alone(m, sett):
    from vlib import run

    _G["iters"] = None
    out = run.single_point([m["Z"]], [m["X"].tolist()], sett, charges=float(m["q"]), mult=float(m["mult"]))
    out["_iters"] = None if _G.get("iters") is None else _G["iters"].copy()
    return out


def _flag(out, k):
    nc = out.get("notconverged")
    if nc is None:
        return None
    return bool(np.asarray(nc).reshape(-1)[k])


def _compare_row(acc, case, tol, a, b, k, m, label, detail, tag="", mech_fn=None):
    """row k of batch output b against alone output a (row 0) for member m.  One violation per row at most;
    `mech_fn(bad_keys)` is asked for a mechanism key only when the row violates."""
    n = len(m["Z"])
    no = _norb(m["Z"], case["method"])
    fa, fb = _flag(a, 0), _flag(b, k)
    det = {kk: vv for kk, vv in detail.items() if not kk.startswith("_")}
    if fa != fb:
        acc.upd("flag_mismatch" + tag, 2.0, 1.0)
        acc.viol.append({"clause": label + ":convergence-flag", "mech": mech_fn(["flag"]) if mech_fn else None,
                         "detail": dict(det, row=k, mol=m["name"], alone_notconverged=fa, batch_notconverged=fb)})
    if fa or fb:
        acc.count("rows_not_converged")
        return False
    loc = {}
    bad = {}

    def chk(name, val, t):
        r = float(val) / t
        if not (r == r):
            r = float("inf")
        loc[name + tag] = max(loc.get(name + tag, 0.0), r)
        if r > 1.0:
            bad[name] = float(val)

    for key in ("Etot", "Eelec", "Enuc", "Hf"):
        chk("d" + key, abs(float(a[key][0]) - float(b[key][k])), tol["E"])
    chk("d_force", np.abs(a["force"][0][:n] - b["force"][k][:n]).max(), tol["F"])
    chk("d_q", np.abs(a["q"][0][:n] - b["q"][k][:n]).max(), tol["Q"])
    chk("d_emo", np.abs(a["e_mo"][0][..., :no] - b["e_mo"][k][..., :no]).max(), tol["EMO"])
    ga, gb = np.asarray(a["gap"]), np.asarray(b["gap"])
    if ga.size and gb.size and ga.shape[1:] == gb.shape[1:]:
        chk("d_gap", np.abs(ga[0] - gb[k]).max(), 2 * tol["EMO"])
    if a.get("dipole") is not None and b.get("dipole") is not None:
        chk("d_dipole", np.abs(a["dipole"][0] - b["dipole"][k]).max(), tol["MU"])
    mech = None
    if bad:
        mech = mech_fn(sorted(bad)) if mech_fn else None
        acc.viol.append({"clause": label, "mech": mech,
                         "detail": dict(det, row=k, mol=m["name"], differences=bad,
                                        Etot_alone=float(a["Etot"][0]), Etot_batch=float(b["Etot"][k]))})
    if not (bad and mech):
        # margins describe rows that are not attributed to a classified mechanism
        for name, r in loc.items():
            if name not in acc.margins or r > acc.margins[name]:
                acc.margins[name] = r
    return True


RESULT_KEYS = ("Etot", "Eelec", "Enuc", "Hf", "force", "dm", "e_mo", "gap", "q", "dipole", "notconverged", "cis_energies")


def _sp2_mech(case, mols, row=None):
    """deterministic classifier for DESIGN 7 row 4: SP2 on, an anion whose row carries padding orbitals
    (norb of the row < norb of the largest batch member).  With row=None: any such row in the batch
    (used when the whole call is aborted by the loop bound)."""
    if not case.get("sp2"):
        return None
    norbs = [_norb(m["Z"], case["method"]) for m in mols]
    rows = range(len(mols)) if row is None else [row]
    for r in rows:
        if mols[r]["q"] < 0 and norbs[r] < max(norbs):
            return MECH_SP2
    return None


def _pulay_mech(case, member, alt_cache, sett_fn, e_batch, tolE, innocent, P_row=None):
    """classifier for the batch-global DIIS reset: Pulay cell, the row had its DIIS history reset on behalf of
    another row, and the value it reached is a *different self-consistent solution of the same molecule*: either it
    equals what the molecule gives alone under another solver path, or the molecule alone, restarted from the batch
    row's density with plain iteration (no mixing, no DIIS), stays converged at the batch value."""
    from vlib import run

    if case["conv"][0] != 2 or innocent <= 0:        # (SP2 as density builder does not matter: the DIIS reset is the same code)
        return None
    key = (member["name"], tuple(np.round(member["X"].reshape(-1), 9)))
    if key not in alt_cache:
        vals = []
        for conv in ([1], [0, 0.3], [0, 0.6]):
            try:
                o = _alone(member, sett_fn(dict(case, conv=conv)))
                if not _flag(o, 0):
                    vals.append(float(o["Etot"][0]))
            except Exception:  # noqa: BLE001
                pass
        alt_cache[key] = vals
    if any(abs(e_batch - v) <= 100 * tolE for v in alt_cache[key]):
        return MECH_DIIS
    if P_row is not None and not case.get("uhf"):
        nb = (9 if case["method"] == "PM6" else 4) * len(member["Z"])
        try:
            o = run.single_point([member["Z"]], [member["X"].tolist()], sett_fn(dict(case, conv=[0, 0.0])),
                                 charges=float(member["q"]), mult=float(member["mult"]), P0=np.array(P_row, dtype=float)[None, :nb, :nb].copy())
            if not _flag(o, 0) and abs(float(o["Etot"][0]) - e_batch) <= 100 * tolE:
                return MECH_DIIS
        except Exception:  # noqa: BLE001
            pass
        # an UNSTABLE stationary point (plain iteration and adaptive mixing walk away from it) still is a self-consistent
        # solution of the molecule alone when its density meets the convergence criterion of the case's own solver on the
        # molecule's own Hamiltonian: restarted alone from the batch row's density, the Pulay solver of the case must accept it
        # as converged at once (<= 6 cycles of the error monitor; the regular solution restarted from itself takes 1, this unstable point 4) at the batch value (AM1 H2S next to
        # CH4/OH-/CN-: -191.51 eV in the batch, gap 0.15 eV, -221.70 eV alone).  A row corrupted by its batch mates is
        # stationary for another Hamiltonian: its commutator on the molecule's own Hamiltonian exceeds eps and it iterates away.
        try:
            _G["iters"] = None
            o = run.single_point([member["Z"]], [member["X"].tolist()], sett_fn(dict(case, conv=[2])),
                                 charges=float(member["q"]), mult=float(member["mult"]),
                                 P0=np.array(P_row, dtype=float)[None, :nb, :nb].copy())
            it = None if _G.get("iters") is None else int(np.asarray(_G["iters"]).reshape(-1)[0])
            if not _flag(o, 0) and abs(float(o["Etot"][0]) - e_batch) <= 100 * tolE and (it is None or it <= 6):
                return MECH_DIIS
        except Exception:  # noqa: BLE001
            pass
    return None


def _pulay_flag_mech(case, member, alt_cache, sett_fn, a, b, k, tolE, innocent, first_reset_cycle):
    """flag mismatch in a Pulay cell (one arm converged, the other truthfully flagged at the iteration cap): the listed
    batch-global DIIS reset iff (1) the row's DIIS history was reset on behalf of another row while its alone run was still
    iterating (reset cycle <= number of cycles the alone run needed, when the batch arm is the one that failed), (2) the arm
    that failed really exhausted the iteration cap (it is not a late rejection), and (3) the converged arm sits on the
    molecule's regular solution: the value every other solver path reaches alone."""
    if case["conv"][0] != 2 or innocent <= 0 or a.get("_iters") is None or b.get("_iters") is None:
        return None
    fa, fb = _flag(a, 0), _flag(b, k)
    if fa == fb:
        return None
    ia, ib = int(a["_iters"][0]), int(b["_iters"][k])
    e_conv = float(b["Etot"][k]) if fa else float(a["Etot"][0])
    if not (e_conv == e_conv):
        return None
    cap_hit = (ib if fb else ia) >= 1000
    in_time = (first_reset_cycle <= ia) if fb else True
    key = (member["name"], tuple(np.round(member["X"].reshape(-1), 9)))
    if key not in alt_cache:
        vals = []
        for conv in ([1], [0, 0.3], [0, 0.6]):
            try:
                o = _alone(member, sett_fn(dict(case, conv=conv)))
                if not _flag(o, 0):
                    vals.append(float(o["Etot"][0]))
            except Exception:  # noqa: BLE001
                pass
        alt_cache[key] = vals
    regular = any(abs(e_conv - v) <= 100 * tolE for v in alt_cache[key])
    return MECH_DIIS if (cap_hit and in_time and regular) else None


def _exc_info(exc):
    import traceback

    tb = traceback.extract_tb(exc.__traceback__)
    last = tb[-1] if tb else None
    return {"type": type(exc).__name__, "msg": str(exc)[:300],
            "where": "%s:%s:%s" % (last.filename, last.lineno, last.name) if last else None}


def _run_sp(case):
    from vlib.mon_c05 import LoopBoundExceeded, arrays_identical, digest

    acc = _Acc()
    lg = _G.get("sp2")
    dw = _G.get("diis")
    alt_cache = {}
    calls0 = lg.calls if lg else 0
    diis_seen0 = dw.seen if dw else 0
    mems = [_member(m) for m in case["members"]]
    sett = _settings(case)
    tol = _tols(case)
    base_cell = "%s/conv%s/sp2=%s/%s/%s" % (case["method"], "-".join(str(x) for x in case["conv"]), case.get("sp2"),
                                             "UHF" if case.get("uhf") else "RHF", case["grad"])
    acc.cells.add(base_cell)
    if case.get("tag") == "loose-eps":
        acc.cells.add("loose-eps/eps=%g/%s/conv%s/%s" % (case["eps"], case["method"], "-".join(str(x) for x in case["conv"]),
                                                        "UHF" if case.get("uhf") else "RHF"))
    if case.get("tag") == "finite-T":
        acc.cells.add("finite-T/T_el=%g/%s/%s" % (case["conv"][3], case["method"],
                                                 "anion" if any(m["q"] < 0 for m in mems) else "neutral"))
        acc.count("finite_T_batches")
        fq0 = _G.get("fermi_q_calls", 0)
    if case.get("tag") == "equal-norb":
        norbs = sorted({_norb(m["Z"], case["method"]) for m in mems})
        splits = sorted({"%dheavy+%dH" % (sum(1 for z in m["Z"] if z > 1), sum(1 for z in m["Z"] if z == 1)) for m in mems})
        acc.cells.add("equal-norb/norb=%s/%s/%s/conv%s/sp2=%s/%s" % ("|".join(map(str, norbs)), " vs ".join(splits), case["method"],
                                                                "-".join(str(x) for x in case["conv"]), case.get("sp2"),
                                                                "UHF" if case.get("uhf") else "RHF"))
        acc.count("equal_norb_batches")
    acc.cells.add("members=%d" % len(mems))
    for m in mems:
        if m["q"] != 0:
            acc.cells.add("charge=%+d" % m["q"])
        if m["mult"] != 1:
            acc.cells.add("mult=%d" % m["mult"])
    alone = []
    for m in mems:
        try:
            alone.append(_alone(m, sett))
        except LoopBoundExceeded:
            return {"ineligible": "alone run hit the SP2 loop bound (C03 domain)", "monitors": {"sp2_loop_trips_alone": 1}}
        except Exception as exc:  # noqa: BLE001
            return {"ineligible": "alone run raised %s" % type(exc).__name__, "obs": _exc_info(exc)}
    nontrivial = False
    ran = 0
    for L in case["layouts"]:
        mols = [mems[i] for i in L["perm"]]
        S, C = _batch_arrays(mols, L["pad"], L["padval"], L["seed"])
        det = {"layout": L, "members": case["members"]}
        try:
            b = _run(S, C, sett, mols)
        except LoopBoundExceeded as exc:
            acc.count("sp2_loop_trips")
            acc.viol.append({"clause": "batch-sp2-loop-bound", "mech": _sp2_mech(case, mols),
                             "detail": {"layout": L, "members": case["members"], "error": str(exc), "bound": SP2_BOUND,
                                        "alone_homo": [float(np.asarray(a["e_mo"][0]).reshape(-1)[int(np.asarray(a["nocc"]).reshape(-1)[0]) - 1])
                                                       for a in alone] if not case.get("uhf") else None}})
            continue
        except Exception as exc:  # noqa: BLE001
            acc.viol.append({"clause": "batch-raises-alone-does-not", "mech": None,
                             "detail": {"layout": L, "members": case["members"], "exception": _exc_info(exc)}})
            continue
        ran += 1
        acc.count("layouts_compared")
        if L["perm"] != sorted(L["perm"]):
            acc.count("perm_layouts")
        acc.cells.add("pad=+%d" % L["pad"])
        acc.cells.add("padval=%s" % L["padval"])
        diis_events = list(dw.events) if (dw and case["conv"][0] == 2) else []
        if any(e["innocent_rows"] for e in diis_events):
            acc.count("diis_resets_applied_to_other_rows", sum(1 for e in diis_events if e["innocent_rows"]))
        per_row_solver = case["conv"][0] in (0, 1) and not case.get("sp2")
        for k, i in enumerate(L["perm"]):
            innocent = sum(1 for e in diis_events if k in e["innocent_rows"])
            if per_row_solver and alone[i].get("_iters") is not None and b.get("_iters") is not None:
                ia, ib = int(alone[i]["_iters"][0]), int(b["_iters"][k])
                if case.get("eps", EPS) >= 1e-6:
                    acc.count("scf_cycle_rows_compared")
                    if acc.upd("scf_cycles_alone_vs_batch", abs(ia - ib) * 2.0, 1.0):
                        acc.viol.append({"clause": "scf-cycle-count-depends-on-batch-layout", "mech": None,
                                         "detail": dict(det, row=k, mol=mems[i]["name"], cycles_alone=ia, cycles_batch=ib,
                                                        scf_eps=case.get("eps", EPS))})
                elif ia != ib:
                    acc.count("scf_cycle_differences_at_tight_eps_recorded_only")

            def mech_fn(bad_keys, k=k, i=i, innocent=innocent, mols=mols, b=b):
                # (the row-4 key names the non-terminating SP2 loop only - loop-bound trips - never a value mismatch)
                if bad_keys == ["flag"]:
                    first = min([e["k"] for e in diis_events if k in e["innocent_rows"]] or [10**9])
                    return _pulay_flag_mech(case, mems[i], alt_cache, _settings, alone[i], b, k, tol["E"], innocent, first)
                return _pulay_mech(case, mems[i], alt_cache, _settings, float(b["Etot"][k]), tol["E"], innocent, P_row=b["dm"][k])

            ok = _compare_row(acc, case, tol, alone[i], b, k, mems[i], "alone-vs-batch",
                              dict(det, diis_resets_on_behalf_of_other_rows=innocent) if diis_events else det,
                              tag="_sp2" if case.get("sp2") else "", mech_fn=mech_fn)
            acc.count("rows_compared")
            nontrivial = nontrivial or ok
    # --- padding values only: exact identity -------------------------------------------------
    pf = case.get("padfam")
    if pf:
        mols = [mems[i] for i in pf["perm"]]
        outs = []
        variants = [(0.0, 0), ("random", pf["seeds"][0]), (1e6, 0), ("coincident", 0), ("random", pf["seeds"][1]), (-3.7e3, 0)]
        try:
            for pv, sd in variants:
                S, C = _batch_arrays(mols, pf["pad"], pv, sd)
                outs.append(_run(S, C, sett, mols))
        except LoopBoundExceeded as exc:
            acc.count("sp2_loop_trips")
            acc.viol.append({"clause": "batch-sp2-loop-bound", "mech": _sp2_mech(case, mols),
                             "detail": {"padfam": pf, "members": case["members"], "error": str(exc)}})
            outs = []
        except Exception as exc:  # noqa: BLE001
            acc.viol.append({"clause": "batch-raises-alone-does-not", "mech": None,
                             "detail": {"padfam": pf, "members": case["members"], "exception": _exc_info(exc)}})
            outs = []
        for j in range(1, len(outs)):
            acc.count("padding_only_pairs")
            diff = [key for key in RESULT_KEYS if not arrays_identical(outs[0].get(key), outs[j].get(key))]
            acc.upd("padding_only_identity", 2.0 if diff else 0.0, 1.0)
            if diff:
                worst = {}
                for key in diff:
                    x, y = outs[0].get(key), outs[j].get(key)
                    if x is not None and y is not None and np.asarray(x).shape == np.asarray(y).shape and np.asarray(x).dtype.kind == "f":
                        worst[key] = float(np.nanmax(np.abs(np.asarray(x) - np.asarray(y))))
                acc.viol.append({"clause": "padding-values-change-output", "mech": None,
                                 "detail": {"padfam": pf, "variant": [str(variants[j][0]), variants[j][1]], "keys": diff,
                                            "maxabs": worst, "members": case["members"]}})
        if outs:
            _G["last_digest"] = digest([outs[0].get(k) for k in RESULT_KEYS])
    # --- same-element swap --------------------------------------------------------------------
    sw = case.get("swap")
    if sw:
        k0, (a_, b_) = sw["member"], sw["atoms"]
        m = mems[k0]
        ms = dict(m)
        Xs = m["X"].copy()
        Xs[[a_, b_]] = Xs[[b_, a_]]
        ms["X"] = Xs
        perm = list(range(len(m["Z"])))
        perm[a_], perm[b_] = perm[b_], perm[a_]
        try:
            asw = _alone(ms, sett)
            mols = list(mems)
            S0, C0 = _batch_arrays(mols, sw["pad"], sw["padval"], sw["seed"])
            mols_s = list(mems)
            mols_s[k0] = ms
            S1, C1 = _batch_arrays(mols_s, sw["pad"], sw["padval"], sw["seed"])
            b0 = _run(S0, C0, sett, mols)
            b1 = _run(S1, C1, sett, mols_s)
            pairs = [("alone", alone[k0], 0, asw, 0), ("batch", b0, k0, b1, k0)]
            # other rows of the batch must not notice the swap at all beyond SCF noise
            others = [(j, mm) for j, mm in enumerate(mems) if j != k0]
        except LoopBoundExceeded as exc:
            acc.count("sp2_loop_trips")
            acc.viol.append({"clause": "batch-sp2-loop-bound", "mech": _sp2_mech(case, mems),
                             "detail": {"swap": sw, "members": case["members"], "error": str(exc)}})
            pairs, others = [], []
        except Exception as exc:  # noqa: BLE001
            acc.viol.append({"clause": "swap-raises", "mech": None,
                             "detail": {"swap": sw, "members": case["members"], "exception": _exc_info(exc)}})
            pairs, others = [], []
        n = len(m["Z"])
        no = _norb(m["Z"], case["method"])
        ts = max(TOL_SWAP_SCALAR, 2 * K_E * _eps_eff(case))
        for where, o0, r0, o1, r1 in pairs:
            if _flag(o0, r0) or _flag(o1, r1):
                continue
            acc.count("swap_pairs")
            bad = []
            for key in ("Etot", "Eelec", "Enuc", "Hf"):
                d = abs(float(o0[key][r0]) - float(o1[key][r1]))
                if acc.upd("swap_d" + key, d, ts):
                    bad.append((key, d))
            d = np.abs(o0["force"][r0][:n][perm] - o1["force"][r1][:n]).max()
            if acc.upd("swap_force_permuted", d, tol["F"]):
                bad.append(("force-permutation", d))
            d = np.abs(o0["q"][r0][:n][perm] - o1["q"][r1][:n]).max()
            if acc.upd("swap_q_permuted", d, tol["Q"]):
                bad.append(("charge-permutation", d))
            d = np.abs(o0["e_mo"][r0][..., :no] - o1["e_mo"][r1][..., :no]).max()
            if acc.upd("swap_emo", d, tol["EMO"]):
                bad.append(("orbital-energies", d))
            # the permutation must be *observable*: unswapped per-atom arrays differ unless the two atoms are equivalent
            for cl, val in bad:
                acc.viol.append({"clause": "swap-%s:%s" % (where, cl), "mech": None,
                                 "detail": {"swap": sw, "members": case["members"], "value": float(val)}})
        for j, mm in others:
            if pairs and not (_flag(b0, j) or _flag(b1, j)):
                d = abs(float(b0["Etot"][j]) - float(b1["Etot"][j]))
                if acc.upd("swap_other_rows_dE", d, tol["E"]):
                    acc.viol.append({"clause": "swap-changes-other-row", "mech": None,
                                     "detail": {"swap": sw, "members": case["members"], "row": j, "value": d}})
    if case.get("tag") == "finite-T":
        acc.count("fermi_q_calls", _G.get("fermi_q_calls", 0) - fq0)
    if dw:
        acc.count("diis_condition_checks_observed", dw.seen - diis_seen0)
    if lg:
        acc.count("sp2_calls", lg.calls - calls0)
        acc.margins["sp2_iterations_per_call"] = lg.max_count / float(SP2_BOUND) if not acc.mon.get("sp2_loop_trips") else None
    return {"nontrivial": nontrivial, "violations": acc.viol, "margins": {k: v for k, v in acc.margins.items() if v is not None},
            "monitors": acc.mon, "cells": sorted(acc.cells),
            "obs": {"members": [m["name"] for m in mems], "layouts_run": ran, "Etot_alone": [float(a["Etot"][0]) for a in alone],
                    "worst": {k: v for k, v in acc.margins.items() if v is not None},
                    "sp2_max_iterations": lg.max_count if lg else None, "digest_padfam": _G.get("last_digest")}}


# ---------------------------------------------------------------------------------------------
def _run_cis(case):
    import seqm.basics as basics

    acc = _Acc()
    mems = [_member(m) for m in case["members"]]
    exc = {"n_states": case["n_states"], "tolerance": 1e-8, "method": "cis"}
    c2 = dict(case, conv=[2], grad="analytical" if case["active"] else "autodiff")
    sett = _settings(c2, excited=exc, active=case["active"])
    tol = _tols(c2)
    seen = {"rcis_batch": 0, "rcis_any_batch": 0}
    orig_b, orig_a = basics.rcis_batch, basics.rcis_any_batch

    def wb(*a, **k):
        seen["rcis_batch"] += 1
        return orig_b(*a, **k)

    def wa(*a, **k):
        seen["rcis_any_batch"] += 1
        return orig_a(*a, **k)

    basics.rcis_batch, basics.rcis_any_batch = wb, wa
    try:
        alone = []
        for m in mems:
            try:
                alone.append(_alone(m, sett))
            except Exception as exc_:  # noqa: BLE001
                return {"ineligible": "alone excited-state run raised %s" % type(exc_).__name__, "obs": _exc_info(exc_)}
        n_alone_calls = dict(seen)
        mols = [mems[i] for i in case["perm"]]
        S, C = _batch_arrays(mols, case["pad"], case["padval"], case["seed"])
        cell = "cis/%s/%s/pad=+%d/active=%d" % (case["method"], case["mode"], case["pad"], case["active"])
        acc.cells.add(cell)
        has_padding = any(0 in row for row in S)
        try:
            b = _run(S, C, sett, mols)
        except Exception as exc_:  # noqa: BLE001
            info = _exc_info(exc_)
            mech = None
            if case["mode"] == "homog" and has_padding and info["type"] == "RuntimeError" and "shape" in info["msg"] \
                    and "rcis_batch.py" in (info["where"] or ""):
                mech = MECH_CIS_PAD
            acc.viol.append({"clause": "cis-batch-raises-alone-does-not", "mech": mech,
                             "detail": {"case": {k: v for k, v in case.items() if k != "members"}, "members": case["members"],
                                        "exception": info, "padding_columns": has_padding}})
            acc.count("cis_batch_raised")
            return {"nontrivial": True, "violations": acc.viol, "monitors": acc.mon, "cells": sorted(acc.cells),
                    "obs": {"exception": info, "members": [m["name"] for m in mems]}}
        acc.count("cis_driver_rcis_batch", seen["rcis_batch"] - n_alone_calls["rcis_batch"])
        acc.count("cis_driver_rcis_any_batch", seen["rcis_any_batch"] - n_alone_calls["rcis_any_batch"])
        nontrivial = False
        for k, i in enumerate(case["perm"]):
            a, m = alone[i], mems[i]
            ea = np.asarray(a["cis_energies"][0], float)
            eb = np.asarray(b["cis_energies"][k], float)
            ns = min(case["n_states"], len(ea), len(eb))
            sep_ok = True
            if case["active"]:
                s = case["active"] - 1
                nb = [abs(ea[s] - ea[j]) for j in range(len(ea)) if j != s]
                sep_ok = (min(nb) if nb else 9.0) >= 0.05
            det = {"case": {kk: vv for kk, vv in case.items() if kk != "members"}, "members": case["members"]}
            if case["active"] and not sep_ok:
                acc.count("cis_rows_root_not_separated")
                continue
            ok = _compare_row(acc, c2, tol, a, b, k, m, "cis-alone-vs-batch", det, tag="_cis")
            d = np.abs(ea[:ns] - eb[:ns]).max()
            acc.count("cis_rows_compared")
            if acc.upd("d_excitation", d, A_EXC):
                acc.viol.append({"clause": "excitation-energies", "mech": None,
                                 "detail": {"value": float(d), "row": k, "mol": m["name"], "alone": ea[:ns].tolist(),
                                            "batch": eb[:ns].tolist(), "case": det["case"], "members": case["members"]}})
            nontrivial = nontrivial or ok
        return {"nontrivial": nontrivial, "violations": acc.viol, "margins": acc.margins, "monitors": acc.mon,
                "cells": sorted(acc.cells),
                "obs": {"members": [m["name"] for m in mems], "cis_alone": [np.asarray(a["cis_energies"][0]).tolist() for a in alone],
                        "drivers": seen, "worst": acc.margins}}
    finally:
        basics.rcis_batch, basics.rcis_any_batch = orig_b, orig_a


# ---------------------------------------------------------------------------------------------
def _velocities(m, seed, zero_momentum):
    """Gaussian velocity field of roughly 300 K; optionally with net linear and angular momentum removed."""
    mass = {1: 1.008, 3: 6.94, 4: 9.012, 5: 10.81, 6: 12.011, 7: 14.007, 8: 15.999, 9: 18.998, 11: 22.99, 12: 24.305,
            13: 26.98, 14: 28.086, 15: 30.974, 16: 32.06, 17: 35.45}
    g = np.random.default_rng(seed)
    mm = np.array([mass[z] for z in m["Z"]])
    V = g.normal(0, 1.0, (len(mm), 3)) * (0.0158 / np.sqrt(mm))[:, None]
    if zero_momentum:
        X = m["X"]
        M = mm.sum()
        V = V - (mm[:, None] * V).sum(0) / M
        r = X - (mm[:, None] * X).sum(0) / M
        Lm = (mm[:, None] * np.cross(r, V)).sum(0)
        I = (mm * (r * r).sum(1)).sum() * np.eye(3) - (mm[:, None, None] * r[:, :, None] * r[:, None, :]).sum(0)
        om = np.linalg.pinv(I, hermitian=True) @ Lm
        V = V - np.cross(om[None, :], r)
    return V


def _md_run(case, S, C, V, mols, prefix, mon):
    """-> (molecule after the run, number of rows)"""
    import torch
    from seqm.MolecularDynamics import Molecular_Dynamics_Basic

    from vlib import run

    sett = _settings(dict(case, conv=[2], grad="autodiff"))
    with run.quiet():
        if len(mols) == 1:
            mol, es, s2 = run.build(S, C, sett, float(mols[0]["q"]), float(mols[0]["mult"]))
        else:
            mol, es, s2 = run.build(S, C, sett, [float(m["q"]) for m in mols], [float(m["mult"]) for m in mols])
        if V is not None:
            mol.velocities = run.tens(V).clone()
        out = {"molid": list(range(len(S))), "prefix": prefix, "print every": 0, "checkpoint every": 0, "xyz": 0,
               "h5": {"data": 1, "coordinates": 1, "velocities": 1, "forces": 1}}
        md = Molecular_Dynamics_Basic(s2, timestep=case["dt"], Temp=float(case.get("temp", 0.0)) if V is None else 0.0, output=out)
        pad = (mol.species == 0)
        orig = Molecular_Dynamics_Basic._zero_com

        def zc(self, molecule, *a, **k):
            mon["zero_com_calls"] = mon.get("zero_com_calls", 0) + 1
            before_v = molecule.velocities.detach().clone()
            r = orig(self, molecule, *a, **k)
            if bool(pad.any()) and not torch.equal(before_v[pad], molecule.velocities.detach()[pad]):
                mon["zero_com_wrote_padding"] = mon.get("zero_com_wrote_padding", 0) + 1
            return r

        Molecular_Dynamics_Basic._zero_com = zc
        try:
            rc = case["remove_com"]
            kw = {"scale_vel": tuple(case["scale_vel"])} if case.get("scale_vel") else {}
            md.run(mol, case["steps"], remove_com=tuple(rc) if rc else None, seed=1, **kw)
        finally:
            Molecular_Dynamics_Basic._zero_com = orig
    return mol


def _read_h5(path):
    import h5py

    with h5py.File(path, "r") as f:
        return {"x": f["coordinates/values"][:], "v": f["velocities/values"][:], "f": f["forces/values"][:],
                "steps": f["coordinates/steps"][:], "Ek": f["data/thermo/Ek"][:], "Ep": f["data/thermo/Ep"][:],
                "T": f["data/thermo/T"][:]}


def _run_md(case):
    import os

    from vlib import env
    from vlib.mon_c05 import arrays_identical

    acc = _Acc()
    alt_cache = {}
    mems = [_member(m) for m in case["members"]]
    vels = [_velocities(m, case["vel_seed"] + 13 * k, case["zero_momentum"]) for k, m in enumerate(mems)]
    drawn = case.get("mode") == "drawn"
    if case.get("tag") == "md-dof":
        acc.cells.add("md-dof/%s/%s/%s-first" % (case["method"], case["mode"], "diatomic" if len(mems[0]["Z"]) == 2 else "nonlinear"))
    cell = "md/%s/remove_com=%s/pad=+%d/padval=%s/zeroP=%s" % (case["method"], case["remove_com"], case["pad"], case["padval"],
                                                             case["zero_momentum"])
    acc.cells.add(cell)
    with env.Scratch("c05md") as d:
        alone = []
        mon_alone = {}
        for k, m in enumerate(mems):
            _md_run(case, [m["Z"]], [m["X"].tolist()], None if drawn else [vels[k].tolist()], [m], os.path.join(d, "a%d" % k), mon_alone)
            alone.append(_read_h5(os.path.join(d, "a%d.0.h5" % k)))
        S, C = _batch_arrays(mems, case["pad"], case["padval"], case["seed"])
        M = len(S[0])
        Vb = None if drawn else [np.vstack([vels[k], np.zeros((M - len(vels[k]), 3))]).tolist() for k in range(len(mems))]
        mon_b = {}
        dw = _G.get("diis")
        if dw:
            dw.clear_cum()
        molb = _md_run(case, S, C, Vb, mems, os.path.join(d, "b"), mon_b)
        innocent = dict(dw.cum_innocent) if dw else {}
        batch = [_read_h5(os.path.join(d, "b.%d.h5" % k)) for k in range(len(mems))]
        fam = None
        if case.get("padfam") and any(0 in row for row in S):
            other = 1e6 if case["padval"] != 1e6 else "random"
            S2, C2 = _batch_arrays(mems, case["pad"], other, case["seed"] + 1)
            _md_run(case, S2, C2, Vb, mems, os.path.join(d, "c"), {})
            fam = [_read_h5(os.path.join(d, "c.%d.h5" % k)) for k in range(len(mems))]
    acc.count("zero_com_calls", mon_b.get("zero_com_calls", 0))
    acc.count("zero_com_wrote_padding", mon_b.get("zero_com_wrote_padding", 0))
    det = {"case": {k: v for k, v in case.items() if k != "members"}, "members": case["members"]}
    for k, m in enumerate(mems):
        a, b = alone[k], batch[k]
        acc.count("md_rows_compared")
        if not np.array_equal(a["steps"], b["steps"]) or a["x"].shape != b["x"].shape:
            acc.viol.append({"clause": "md-row-shape", "mech": None, "detail": dict(det, row=k, alone=list(a["x"].shape), batch=list(b["x"].shape))})
            continue
        acc.count("md_steps_compared", len(a["steps"]))
        if drawn:
            # engine-drawn velocities differ between the two runs; T(s)/Ek(s) = 2/(n_dof k_B) is a constant of the molecule
            ra, rb = a["T"] / a["Ek"], b["T"] / b["Ek"]
            dev = float(np.max(np.abs(np.concatenate([ra, rb]) / ra[0] - 1)))          # np.max propagates NaN
            t0 = float(np.max(np.abs(np.array([a["T"][0], b["T"][0]]) / case["temp"] - 1)))
            acc.count("md_dof_ratio_rows")
            bad = {}
            if acc.upd("md_T_over_Ek_alone_vs_batch", dev, 1e-9):
                bad["T_over_Ek"] = {"alone": float(ra[0]), "batch": float(rb[0]), "relative_deviation": dev}
            if acc.upd("md_T0_equals_Temp", t0, 1e-8):
                bad["T0"] = {"alone": float(a["T"][0]), "batch": float(b["T"][0]), "Temp": case["temp"]}
            if bad:
                acc.viol.append({"clause": "md-temperature-bookkeeping-depends-on-batch-mates", "mech": None,
                                 "detail": dict(det, row=k, mol=m["name"], differences=bad, natoms=len(m["Z"]))})
            continue
        if case.get("scale_vel"):
            acc.count("md_dof_scale_vel_rows")
        bad, loc = {}, {}
        for key, t, name in (("x", TOL_MD_X, "coordinates"), ("v", TOL_MD_V, "velocities"), ("f", A_F, "forces"),
                             ("Ep", TOL_MD_E, "Ep"), ("Ek", TOL_MD_E, "Ek"), ("T", 1e-4, "T")):
            dd = np.abs(a[key] - b[key])
            dmax = float(dd.max())
            loc["md_d_" + name] = dmax / t if dmax == dmax else float("inf")
            if not (dmax <= t):
                bad[name] = {"value": dmax, "first_bad_step": int(np.argmax(dd.reshape(len(dd), -1).max(axis=1) > t))}
        mech = None
        if bad:
            # the MD settings use the Pulay solver: same classifier as in the single-point cells, applied to step 0
            c2 = dict(case, conv=[2], sp2=None, grad="autodiff")
            if abs(float(a["Ep"][0]) - float(b["Ep"][0])) > A_E:
                P_row = None
                try:
                    b0 = _run(S, C, _settings(c2), mems)          # the batch's step-0 SCF, repeated as a single point
                    if abs(float(b0["Etot"][k]) - float(b["Ep"][0])) <= A_E:
                        P_row = b0["dm"][k]
                except Exception:  # noqa: BLE001
                    pass
                mech = _pulay_mech(c2, m, alt_cache, _settings, float(b["Ep"][0]), A_E, innocent.get(k, 0), P_row=P_row)
            acc.viol.append({"clause": "md-alone-vs-batch", "mech": mech,
                             "detail": dict(det, row=k, mol=m["name"], differences=bad, Ep0_alone=float(a["Ep"][0]),
                                            Ep0_batch=float(b["Ep"][0]), diis_resets_on_behalf_of_other_rows=innocent.get(k, 0))})
        if not (bad and mech):
            for name, r in loc.items():
                acc.margins[name] = max(acc.margins.get(name, 0.0), r)
        if fam is not None:
            acc.count("padding_only_pairs")
            diff = [key for key in ("x", "v", "f", "Ep", "Ek", "T") if not arrays_identical(batch[k][key], fam[k][key])]
            acc.upd("md_padding_only_identity", 2.0 if diff else 0.0, 1.0)
            if diff:
                acc.viol.append({"clause": "md-padding-values-change-trajectory", "mech": None,
                                 "detail": dict(det, row=k, mol=m["name"], keys=diff,
                                                maxabs={key: float(np.abs(batch[k][key] - fam[k][key]).max()) for key in diff})})
    # padding slots of the batch must come back untouched
    Sarr = np.asarray(S)
    padmask = Sarr == 0
    if padmask.any():
        acc.count("md_padded_batches")
        xf = molb.coordinates.detach().numpy()
        vf = molb.velocities.detach().numpy()
        x0 = np.asarray(C)
        moved = float(np.abs(xf[padmask] - x0[padmask]).max())
        vmax = float(np.abs(vf[padmask]).max())
        changed = (moved != 0.0) or (vmax != 0.0)
        acc.upd("md_padding_rows_untouched", 2.0 if changed else 0.0, 1.0)
        if changed:
            mech = MECH_COM if mon_b.get("zero_com_wrote_padding", 0) > 0 else None
            acc.viol.append({"clause": "md-padding-rows-modified", "mech": mech,
                             "detail": dict(det, padding_displacement=moved, padding_speed=vmax,
                                            zero_com_calls=mon_b.get("zero_com_calls", 0),
                                            zero_com_calls_that_wrote_padding=mon_b.get("zero_com_wrote_padding", 0))})
    return {"nontrivial": True, "violations": acc.viol, "margins": acc.margins, "monitors": acc.mon, "cells": sorted(acc.cells),
            "obs": {"members": [m["name"] for m in mems], "steps": case["steps"], "worst": acc.margins,
                    "zero_com": mon_b, "x_final_row0": batch[0]["x"][-1].tolist()}}


EXC_ATTRS = ("all_forces", "all_cis_relaxed_diploles", "all_cis_unrelaxed_diploles", "cis_state_relaxed_dipole",
             "cis_state_unrelaxed_dipole", "transition_dipole", "oscillator_strength", "cis_energies")


def _exc_run(S, C, sett, mols):
    """single point keeping the molecule object, so that every published excited-state attribute can be read.
    -> (outputs dict | None, exception | None)"""
    from vlib import run

    try:
        if len(mols) == 1 and len(S) == 1:
            out = run.single_point(S, C, sett, charges=float(mols[0]["q"]), mult=float(mols[0]["mult"]), keep=True)
        else:
            out = run.single_point(S, C, sett, charges=[float(m["q"]) for m in mols], mult=[float(m["mult"]) for m in mols], keep=True)
    except Exception as exc:  # noqa: BLE001
        return None, exc
    mol = out.pop("_mol")
    out["_molobj"] = mol if len(S) == 1 else None        # alone runs keep the object (dense reference of the classifier)
    out.pop("_es", None)
    out.pop("_sett", None)
    for a in EXC_ATTRS:
        out[a] = run.npy(getattr(mol, a, None))
    return out, None


MECH_ROOT = "davidson-root-skipped-symmetric-geometry-default-guess"
DENSE_TOL = 1e-5


def _dense_roots(mol, exc_method, b=0):
    """lowest dense singlet CIS / RPA excitation energies of molecule b, from the finished call's own orbitals and integrals
    (independent numpy reference of C16, vlib/c16_dense.py).  -> ascending array or None"""
    from vlib import c16_dense as D

    try:
        am, pm = mol.atom_molid.numpy(), mol.pair_molid.numpy()
        atoms = np.nonzero(am == b)[0]
        first = int(atoms[0])
        Z = mol.Z.numpy()[atoms].astype(int)
        sel = np.nonzero(pm == b)[0]
        ii, jj = mol.idxi.numpy()[sel] - first, mol.idxj.numpy()[sel] - first
        par = {k: mol.parameters[k].detach().numpy()[atoms] for k in ("g_ss", "g_sp", "g_pp", "g_p2", "h_sp")}
        norb, nocc = int(mol.norb[b]), int(mol.nocc[b])
        C = mol.molecular_orbitals[b].detach().numpy()[:norb, :norb]
        e = mol.e_mo[b].detach().numpy()[:norb]
        w = mol.w.detach().numpy()[sel]
        if not D.all_finite(C, e, w, *par.values()):
            return None
        G = D.eri_ao(Z, list(zip(ii.tolist(), jj.tolist())), w, par["g_ss"], par["g_sp"], par["g_pp"], par["g_p2"], par["h_sp"])
        A, B = D.dense_AB(G, C, e, list(range(nocc)), list(range(nocc, norb)))
        if exc_method == "rpa":
            r = D.rpa_eig(A, B)
            return None if r is None else np.asarray(r[0], float)
        return np.asarray(D.cis_eig(A)[0], float)
    except Exception:  # noqa: BLE001   (no reference -> no classification)
        return None


def _root_skip_mech(dense, ea, eb, nj):
    """listed C16 mechanism iff one arm reproduces the dense lowest roots while the other arm's k-th root sits at or above the
    dense (k+1)-th root, i.e. that arm skipped a root.  -> (mech or None, which arm skipped)"""
    if dense is None or len(dense) <= nj or not (np.all(np.isfinite(ea[:nj])) and np.all(np.isfinite(eb[:nj])) and np.all(np.isfinite(dense))):
        return None, None

    def matches(x):
        return bool(np.all(np.abs(x[:nj] - dense[:nj]) <= DENSE_TOL))

    def skipped(x):
        return any(x[k] >= dense[k + 1] - DENSE_TOL and x[k] > dense[k] + DENSE_TOL for k in range(nj))

    if matches(ea) and skipped(eb):
        return MECH_ROOT, "batch"
    if matches(eb) and skipped(ea):
        return MECH_ROOT, "alone"
    return None, None


MECH_RPA_UNINIT = "rpa-batch-reads-uninitialised-subspace-buffers"


def _rpa_zero_init_agrees(S, C, sett, mols, order, alone, nj):
    """counterfactual used only to CLASSIFY a non-finite / raising RPA batch: the same call with the `torch.empty` /
    `torch.empty_like` allocations of seqm.seqm_functions.rpa replaced by zero-filled ones (allocation only, nothing else).
    -> True iff that call completes and every row's roots agree with the alone runs."""
    import torch

    import seqm.seqm_functions.rpa as rpa

    class _T:
        def __getattr__(self, n):
            return getattr(torch, n)

        def empty(self, *a, **k):
            return torch.zeros(*a, **k)

        def empty_like(self, x, **k):
            return torch.zeros_like(x, **k)

    saved = rpa.torch
    rpa.torch = _T()
    try:
        b, exc = _exc_run(S, C, sett, mols)
    finally:
        rpa.torch = saved
    if exc is not None or b.get("cis_energies") is None:
        return False
    for k, i in enumerate(order):
        d = np.abs(np.asarray(alone[i]["cis_energies"][0], float)[:nj] - np.asarray(b["cis_energies"][k], float)[:nj])
        if not np.all(d <= A_EXC):
            return False
    return True


def _run_cisall(case):
    acc = _Acc()
    mems = [_member(m) for m in case["members"]]
    from vlib import run

    eonly = bool(case.get("energies_only"))
    sett = run.settings(case["method"], eps=EPS, converger=(2,), grad="autodiff" if eonly else "analytical",
                        excited={"n_states": case["n_states"], "tolerance": 1e-8, "method": case["exc_method"]},
                        extra=None if eonly else {"do_all_forces": True})
    if case.get("tag") == "sym-dist":
        acc.cells.add("sym-dist/%s/%s/%s/nmol=%d" % (case["method"], case["exc_method"], case["members"][0]["mol"], len(mems)))
    n = len(mems[0]["Z"])
    nj = case["judged_states"]
    acc.cells.add("cisall/%s/%s/nmol=%d/pad=+%d" % (case["method"], case["exc_method"], len(mems), case["pad"]))
    alone = []
    for m in mems:
        o, exc = _exc_run([m["Z"]], [m["X"].tolist()], sett, [m])
        if exc is not None:
            return {"ineligible": "alone excited-state run raised %s" % type(exc).__name__, "obs": _exc_info(exc)}
        alone.append(o)
    det = {"case": {k: v for k, v in case.items() if k != "members"}, "members": case["members"]}
    nontrivial = False
    for order in case["orders"]:
        mols = [mems[i] for i in order]
        S, C = _batch_arrays(mols, case["pad"], case["padval"], case["seed"])
        # allocator traffic before the batched solve: memory handed out afterwards is not zero.  Correct code never
        # reads uninitialised memory, so this cannot change a result (fix 826ed66: rpa.py read torch.empty buffers)
        from vlib.c15jobs import _poison_heap
        import seqm.basics as _sb
        for _name in ("rpa", "rcis_batch", "rcis_any_batch"):  # poison again at the entry of the excited-state solvers
            _f = getattr(_sb, _name, None)
            if callable(_f) and not getattr(_f, "_verif_poison", False):
                def _wrapped(*a_, _f=_f, **k_):
                    _poison_heap(1)
                    return _f(*a_, **k_)
                _wrapped._verif_poison = True
                setattr(_sb, _name, _wrapped)
        _poison_heap(1)
        acc.count("cisall_batches_after_heap_poisoning")
        b, exc = _exc_run(S, C, sett, mols)
        if case.get("tag") == "sym-dist":
            sig = [case["members"][i].get("sigma", 0.05) for i in order]
            if any(sig[x] == 0.0 and any(y > 0 for y in sig[x + 1:]) for x in range(len(sig))):
                acc.count("excited_fast_row_before_slow_row_batches")
            acc.count("excited_sym_dist_batches")
        if exc is not None:
            info = _exc_info(exc)
            if "did not converge" in info["msg"] or "not converged" in info["msg"]:
                acc.count("cisall_batch_solver_not_converged")      # same standing as a non-convergence flag: not judged
                continue
            mech = None
            if case["exc_method"] == "rpa" and _rpa_zero_init_agrees(S, C, sett, mols, order, alone, nj):
                mech = MECH_RPA_UNINIT
                acc.count("rpa_uninitialised_buffer_classified")
            acc.viol.append({"clause": "cisall-batch-raises-alone-does-not", "mech": mech, "detail": dict(det, order=order, exception=info)})
            continue
        if case["exc_method"] == "rpa" and b.get("cis_energies") is not None and not np.all(np.isfinite(np.asarray(b["cis_energies"], float)[:, :nj])):
            mech = MECH_RPA_UNINIT if _rpa_zero_init_agrees(S, C, sett, mols, order, alone, nj) else None
            if mech:
                acc.count("rpa_uninitialised_buffer_classified")
            acc.viol.append({"clause": "cisall-batch-non-finite-roots", "mech": mech,
                             "detail": dict(det, order=order, roots_batch=np.asarray(b["cis_energies"], float)[:, :nj].tolist())})
            continue
        for k, i in enumerate(order):
            a = alone[i]
            if _flag(a, 0) or _flag(b, k):
                continue
            ea, eb = np.asarray(a["cis_energies"][0], float), np.asarray(b["cis_energies"][k], float)
            # states whose excitation energy is >= 0.05 eV from both neighbours (the root above the last judged one is computed too)
            sep = [bool(min(abs(ea[r] - ea[t]) for t in range(len(ea)) if t != r) >= 0.05) for r in range(nj)]
            bad = {}

            def chk(name, val, t, bad=bad):
                if acc.upd("cisall_" + name, val, t):
                    bad[name] = float(val)

            chk("dEtot", abs(float(a["Etot"][0]) - float(b["Etot"][k])), A_E)
            dexc = float(np.abs(ea[:nj] - eb[:nj]).max())
            if not (dexc <= A_EXC):
                bad["d_excitation"] = dexc          # its margin is recorded below, unless the row is attributed to a listed mechanism
            chk("d_ground_force", np.abs(a["force"][0][:n] - b["force"][k][:n]).max(), A_F)
            if a.get("dipole") is not None and b.get("dipole") is not None:
                chk("d_ground_dipole", np.abs(a["dipole"][0] - b["dipole"][k]).max(), A_MU)
            for r in range(0 if eonly else nj):
                if not sep[r]:
                    acc.count("cisall_states_not_separated")
                    continue
                acc.count("cisall_states_compared")
                if a["all_forces"] is not None and b["all_forces"] is not None:
                    chk("d_state_force", np.abs(a["all_forces"][0][r + 1][:n] - b["all_forces"][k][r + 1][:n]).max(), A_F)
                    acc.count("cis_all_forces_rows_compared")
                for key, nm in (("all_cis_relaxed_diploles", "d_relaxed_state_dipole"), ("all_cis_unrelaxed_diploles", "d_unrelaxed_state_dipole")):
                    if a[key] is not None and b[key] is not None:
                        chk(nm, np.abs(a[key][0][r] - b[key][k][r]).max(), A_MU)
                        acc.count("cis_state_dipole_rows_compared")
                for key, nm in (("transition_dipole", "d_transition_dipole_abs"), ("oscillator_strength", "d_oscillator_strength")):
                    if a[key] is not None and b[key] is not None and np.asarray(a[key]).ndim >= 2:
                        chk(nm, np.abs(np.abs(a[key][0][r]) - np.abs(b[key][k][r])).max(), A_MU)      # phase of a state is free
            if a["all_forces"] is not None and b["all_forces"] is not None:
                chk("d_all_forces_ground_row", np.abs(a["all_forces"][0][0][:n] - b["all_forces"][k][0][:n]).max(), A_F)
            # (cis_state_relaxed_dipole / cis_state_unrelaxed_dipole are the rows of the LAST computed root, whose upper neighbour is
            #  unknown, so they are covered through the all_cis_* rows of the judged states only)
            if bad:
                mech, arm = None, None
                if "d_excitation" in bad:
                    if "_dense" not in a:
                        a["_dense"] = _dense_roots(a["_molobj"], case["exc_method"]) if a.get("_molobj") is not None else None
                    mech, arm = _root_skip_mech(a["_dense"], ea, eb, nj)
                    if mech:
                        acc.count("excited_root_skip_classified_rows")
                if not mech and "d_excitation" in bad:
                    acc.upd("cisall_d_excitation", dexc, A_EXC)
                acc.viol.append({"clause": "cisall-alone-vs-batch", "mech": mech,
                                 "detail": dict(det, order=order, row=k, mol=mems[i]["name"], differences=bad, arm_that_skipped_a_root=arm,
                                                roots_alone=ea[:nj].tolist(), roots_batch=eb[:nj].tolist(),
                                                dense_lowest=None if a.get("_dense") is None else a["_dense"][:nj + 2].tolist())})
            if "d_excitation" not in bad:
                acc.upd("cisall_d_excitation", dexc, A_EXC)
            nontrivial = True
    for a in alone:
        a.pop("_molobj", None)
        a.pop("_dense", None)
    return {"nontrivial": nontrivial, "violations": acc.viol, "margins": acc.margins, "monitors": acc.mon, "cells": sorted(acc.cells),
            "obs": {"members": [m["name"] for m in mems], "cis_alone": [np.asarray(a["cis_energies"][0]).tolist() for a in alone],
                    "published": [k for k in EXC_ATTRS if alone[0].get(k) is not None], "worst": acc.margins}}


def run_case(case):
    kind = case.get("kind", "sp")
    n0 = _G.get("parser_checks", 0)
    _G["parser_problems"] = []
    if kind == "sp":
        res = _run_sp(case)
    elif kind == "cis":
        res = _run_cis(case)
    elif kind == "md":
        res = _run_md(case)
    elif kind == "cisall":
        res = _run_cisall(case)
    else:
        return {"harness_error": "unknown case kind %r" % kind}
    res.setdefault("monitors", {})["parser_calls_checked"] = _G.get("parser_checks", 0) - n0
    if _G.get("parser_problems"):
        res.setdefault("violations", []).append({"clause": "parser-output-differs-from-independent-enumeration", "mech": None,
                                                 "detail": {"witnesses": _G["parser_problems"][:3], "case_kind": kind}})
        res.setdefault("margins", {})["parser_output_exact"] = 2.0
    elif _G.get("parser_checks", 0) > n0:
        res.setdefault("margins", {})["parser_output_exact"] = 0.0
    return res


def summarize(cases, results, report):
    kinds = {}
    nperm_exh = 0
    for c, r in zip(cases, results):
        kinds[c.get("kind", "sp")] = kinds.get(c.get("kind", "sp"), 0) + 1
        if c.get("kind") == "sp" and c.get("perms_exhaustive") and r and not r.get("ineligible"):
            nperm_exh += 1
    mols = sorted({m["mol"] for c in cases for m in c.get("members", [])})
    return {"case_kinds": kinds, "sp_cases_with_all_permutations": nperm_exh, "library_molecules_used": mols,
            "tolerances": {"E": A_E, "F": A_F, "q": A_Q, "e_mo": A_EMO, "excitation": A_EXC, "md_x": TOL_MD_X,
                           "sp2_cells": "same bounds as diagonalisation cells (independent of the SP2 tolerance)",
                           "sp2_loop_bound": SP2_BOUND}}
