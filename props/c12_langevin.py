"""C12 -- the Langevin thermostat samples the canonical ensemble at the target temperature.

Technique: (a) exact algebraic identity on LIVE thermostat state after the real `initialize` of every engine that
inherits the update; (b) distributional test of the REAL `_apply_langevin_thermostat` on large synthetic
ensembles against the Ornstein-Uhlenbeck moment recursion (exact chi-square / normal quantiles); (c) real short
runs: time-and-ensemble mean kinetic temperature of batched replicas, tau -> infinity equals NVE, T = 0 only
removes energy; (d) call counters: two thermostat calls per integrator step iff a damping time is set.

clauses
  fd-c1               c1 == exp(-dt/(2 tau))                                             rel 1e-13
  fd-noise            c2^2 m / (kB T) == 1 - exp(-dt/tau)   (kB = 1/(KE_SCALE*TEMP_SCALE), the constant of the code's own
                      thermometer; expm1 reference)                                       rel 1e-12
  fd-identity         c2^2 m/(kB T) + c1^2 == 1                                          abs 1e-12   (and 1e-6 with CODATA kB)
  fd-padding / fd-T0  c2 == 0 exactly on padding rows / everywhere when T == 0
                      all fd-* clauses are also evaluated on a REUSED driver object: after md.Temp is changed and initialize is
                      called again, and after the same driver is initialised on another molecule of the same padded shape
                      with other elements (cells .../reuse-Temp, .../reuse-molecule); meanT is judged on the second stage of a
                      staged-heating run of one driver (cell .../after-stage-at-<T>K)
  ou-chi2             after n real half-step updates from Maxwell-Boltzmann at T0, sum m v^2 / (kB T_n) over one element's
                      atoms x rows x xyz is chi^2(N) with T_n = c1^2n T0 + (1 - c1^2n) T (T0 = T: invariance); two-sided
                      exact quantiles at alpha = 1e-12 per test
  ou-mean             sum sqrt(m) v / sqrt(N kB T_n) ~ N(0,1), |z| <= 7.2 (alpha = 6e-13)
  ou-padding          padding rows of the ensemble stay exactly zero
  ou-T0-heating       T = 0: no row's kinetic energy increases in any update (exact)
  meanT / meanT-<el>  real Langevin runs of R replicas: |<T_kin>/T - 1| <= 6 sigma + 1 %, sigma = sqrt(2/(n_dof_total*N_eff)),
                      N_eff = max(1, window/(4 tau)) (half the independent-sample count of an OU process with rate 1/tau,
                      so sigma is >= 2x the true standard error: false alarm << 1e-8); also pooled over all cases
  meanT-h5            the thermometer of the hook equals /data/thermo/T rows (1e-6)
  tauinf              Langevin with damp = 1e12 / inf vs NVE from the same supplied state: max |dx| <= 1e-9 A + 20 sigma_noise
  tzero-hook          Temp = 0: no thermostat call increases any molecule's kinetic energy (exact)
  tzero-energy        Temp = 0: Ek+Ep never exceeds its running minimum by more than twice the NVE fluctuation amplitude
                      of the companion run + 1e3 eps, and ends below its start
  calls               thermostat calls per integrator step: exactly 2 (first and last event of the step) iff damp is set
  firstnoise-*        seeded FRESH runs with driver-sampled velocities (48 CH4 + 48 padded H2O in one batch, dt/tau 0.5; Langevin, damped XL /
                      KSA): the first noise vector xi (recovered from the first real half-step with the live c1, c2) is independent of the
                      initial velocities: z = xi.u/|u| ~ N(0,1) exactly, |z| <= 7.2; sum xi^2 ~ chi2(N); Ek_after/Ek_before within 7.2 sigma
                      of the OU expectation
  comrem-Ek           thermostatted engines (Langevin, damped XL / KSA, surface hopping) run with remove_com=('linear'|'angular', n): every
                      periodic _zero_com call leaves each molecule's kinetic energy unchanged (1e-12; the drivers keep n_dof = 3N, so
                      the removed COM / rotational energy must be given back) -- and the meanT clauses hold with stride 1..10
  calls-resumed       the same on the engine REBUILT by run_from_checkpoint after a crash right after a checkpoint (class-level
                      wrappers; Langevin, XL / KSA damped and undamped, surface hopping damped and undamped), plus the fd-*
                      identity on its live coefficients and resume-parameters (damp, dt, Temp restored exactly)
"""
import math

import numpy as np

from vlib import gen

PROPERTY = "C12"
RULE = ("case kinds: identity (engine x element-covering padded batch x (dt,tau,T) grid with dt/tau in [1e-4,10]); ensemble "
        "(engine, (dt,tau,T), T0/T in {1,0.3,3}, 4000-20000 synthetic rows through the real update); meanT (batched H2/H2O "
        "replicas under the real Langevin engine, distinct seeds); tauinf; tzero; calls (every engine, damp set / None). "
        "non-trivial when the live thermostat state / the update / the run was actually observed; distinct by SHA-1")
ASSUMPTIONS = ["float64 CPU", "statistical clauses: per-test alpha = 1e-12 (exact chi-square / normal quantiles), at most 5000 "
               "tests per run => per-run false-alarm probability < 1e-8; the run-level mean-temperature clause uses a standard "
               "error that is >= 2x the true one", "masses of the shipped table are the property's given",
               "kinetic temperature of the Bussi-Parrinello scheme is unbiased at step ends for harmonic modes; anharmonic / "
               "initial-transient bias is covered by the 1 % allowance (burn-in >= 8 tau)",
               "angular COM-removal cells use water-only replicas: a diatomic has ONE internal degree of freedom, at a vibrational turning "
               "point nothing is left after COM + rotation removal and _zero_com raises 'Zero kinetic energy after removing COM momentum' "
               "(observed on the unchanged tree with 128 H2 x 400 steps; reported as an observation, not judged here)"]
REQUIRED_MONITORS = ["identity_atoms", "identity_engines", "identity_reuse", "meanT_reused_driver", "stat_tests", "thermostat_updates", "meanT_samples", "tauinf_pairs",
                     "tzero_hook_calls", "call_steps_damped", "call_steps_undamped", "resumed_steps_damped", "resumed_steps_undamped", "comrem_ke_events", "first_noise_correlated_runs"]
CASE_TIMEOUT = 1500.0
BUDGET_S = {"quick": 200, "thorough": 1700}
ALPHA = 1e-12
MAX_TESTS = 5000
Z_MEAN = 7.2
EPS = 1e-8

BATCHES = {
    "AM1": ["BH3", "CH4", "NH3", "H2O", "HF", "AlH3", "SiH4", "PH3", "H2S", "HCl", "BeH2"],
    "MNDO": ["LiH", "BH3", "CH4", "NH3", "H2O", "HF", "NaH", "SiH4", "H2S", "HCl"],
    "PM3": ["LiH", "BeH2", "CH4", "NH3", "H2O", "HF", "MgH2", "AlH3", "PH3", "HCl"],
}


def gen_cases(tier, seed):
    g = gen.rng("C12", tier)

    def s():
        return int(g.integers(0, 2 ** 31))

    def grid(n):
        out = []
        for _ in range(n):
            dt = float(10 ** g.uniform(-1.5, 0.3))
            ratio = float(10 ** g.uniform(-4, 1))
            out.append([dt, dt / ratio, float([0.0, 1.0, 300.0, 5000.0, 10 ** g.uniform(0, 4)][int(g.integers(0, 5))])])
        out += [[0.5, 0.5 / 1e-4, 300.0], [0.5, 0.05, 300.0], [0.1, 1e12, 300.0], [1.0, 50.0, 0.0]]
        return out

    cases = []
    q = tier == "quick"
    for eng, method, n in (("langevin", "AM1", 24), ("xl", "MNDO", 16), ("ksa", "PM3", 12), ("sh", "AM1", 5),
                           ("langevin", "PM3", 16), ("xl", "AM1", 12)):
        if q and (eng, method) in (("langevin", "PM3"), ("xl", "AM1")):
            continue
        cases.append({"kind": "identity", "engine": eng, "method": method, "grid": grid(n if q else 3 * n), "geom_seed": s()})
    if not q:
        for m_ in ("HCN", "CH3Cl", "H2S"):
            cases.append({"kind": "identity", "engine": "sh", "method": "AM1", "sh_mol": m_, "grid": grid(4), "geom_seed": s()})
    ens = [("langevin", 0.2, 1.0, 300.0), ("xl", 0.5, 0.2, 1000.0), ("langevin", 1.0, 50.0, 50.0), ("ksa", 0.1, 0.01, 300.0)]
    if not q:
        ens += [("sh", 0.1, 2.0, 300.0), ("langevin", 0.05, 500.0, 2000.0), ("xl", 0.2, 0.02, 10.0)]
    for eng, dt, tau, T in ens:
        cases.append({"kind": "ensemble", "engine": eng, "dt": dt, "tau": tau, "T": T, "rows": 4000 if q else 12000,
                      "nupd": 16 if q else 24, "seed": s(), "geom_seed": s()})
    if q:
        cases.append({"kind": "meanT", "nH2O": 96, "nH2": 96, "dt": 0.2, "tau": 1.0, "T": 300.0, "burn": 50, "steps": 100,
                      "stage1": {"T": 50.0, "steps": 6}, "seed": s(), "geom_seed": s()})
        for rc in (["linear", 1], ["angular", 2]):
            cases.append({"kind": "meanT", "nH2O": 48 if rc[0] == "linear" else 80, "nH2": 48 if rc[0] == "linear" else 0, "dt": 0.2, "tau": 1.0, "T": 300.0, "burn": 50, "steps": 100,
                          "remove_com": rc, "seed": s(), "geom_seed": s()})
    else:
        for rc, dt, tau in ((["linear", 1], 0.2, 1.0), (["angular", 1], 0.2, 1.0), (["linear", 5], 0.1, 2.0), (["angular", 10], 0.2, 0.5)):
            cases.append({"kind": "meanT", "nH2O": 128 if rc[0] == "linear" else 200, "nH2": 128 if rc[0] == "linear" else 0, "dt": dt, "tau": tau,
                          "T": 300.0, "burn": int(round(10 * tau / dt)), "steps": 400, "remove_com": rc, "seed": s(), "geom_seed": s()})
        for dt, tau, T in ((0.1, 2.0, 300.0), (0.2, 1.0, 300.0), (0.1, 0.5, 600.0), (0.2, 1.0, 150.0)):
            cases.append({"kind": "meanT", "nH2O": 128, "nH2": 128, "dt": dt, "tau": tau, "T": T, "burn": int(round(10 * tau / dt)),
                          "steps": 600, "seed": s(), "geom_seed": s()})
            if T in (600.0, 150.0):
                cases[-1]["stage1"] = {"T": 2400.0 if T == 150.0 else 60.0, "steps": 20}
    for mols, method, damp in ((["H2O"], "AM1", 1e12), (["NH3", "H2O"], "PM3", "inf")) + \
            (() if q else ((["CH2O"], "AM1", 1e15), (["CH4", "H2O"], "MNDO", 1e12), (["HCN"], "AM1", "inf"))):
        cases.append({"kind": "tauinf", "mols": mols, "method": method, "damp": damp, "dt": 0.2, "steps": 12 if q else 30,
                      "T": 300.0, "seed": s(), "geom_seed": s()})
    for mols, method, tau in ((["H2O"], "AM1", 2.0), (["CH4", "H2O"], "PM3", 10.0)) + \
            (() if q else ((["CH2O"], "AM1", 0.5), (["NH3"], "MNDO", 5.0))):
        cases.append({"kind": "tzero", "mols": mols, "method": method, "tau": tau, "dt": 0.2, "steps": 20 if q else 60,
                      "seed": s(), "geom_seed": s()})
    for eng in ("basic", "langevin", "xl", "ksa", "sh"):
        for damp in ((None, 7.0) if eng not in ("basic", "langevin") else ((None,) if eng == "basic" else (7.0,))):
            cases.append({"kind": "calls", "engine": eng, "damp": damp, "steps": 3, "mols": ["H2O", "CH2O"] if eng != "sh" else ["CH2O"],
                          "seed": s(), "geom_seed": s()})
    for i in range(3 if q else 8):
        cases.append({"kind": "firstnoise", "engine": ["langevin", "xl", "langevin", "ksa"][i % 4], "nCH4": 48, "nH2O": 48, "dt": 0.5, "tau": 1.0,
                      "T": [300.0, 600.0, 150.0][i % 3], "seed": s() % 10 ** 6, "geom_seed": s()})
    for eng, rc in (("langevin", ["angular", 1]), ("xl", ["linear", 1]), ("ksa", ["angular", 1]), ("sh", ["linear", 2]), ("langevin", ["linear", 3])):
        cases.append({"kind": "calls", "engine": eng, "damp": 7.0, "steps": 4, "remove_com": rc,
                      "mols": ["H2O", "CH2O"] if eng != "sh" else ["CH2O"], "seed": s(), "geom_seed": s()})
    for eng, damps in (("langevin", (6.0,)), ("xl", (6.0, None)), ("ksa", (9.0, None)), ("sh", (6.0, None))):
        for damp in damps:
            cases.append({"kind": "resumed", "engine": eng, "damp": damp, "steps": 5, "ckpt": 2, "T": 250.0, "dt": 0.3,
                          "mols": ["H2O", "CH2O"] if eng != "sh" else ["CH2O"], "seed": s(), "geom_seed": s()})
    order = {"meanT": 0, "tzero": 1, "tauinf": 2, "identity": 3, "ensemble": 4, "calls": 5, "resumed": 5, "firstnoise": 4}
    cases.sort(key=lambda c: order[c["kind"]])
    return cases


# ---------------------------------------------------------------------------------------
class _Acc:
    def __init__(self):
        self.margins, self.viol, self.cells = {}, [], []
        self.mon = {k: 0 for k in REQUIRED_MONITORS}

    def upd(self, name, val, tol, detail=None, mech=None):
        r = float(val) / float(tol) if tol > 0 else (0.0 if val == 0 else float("inf"))
        if not (r <= self.margins.get(name, -1.0)):
            self.margins[name] = r
        if not (r <= 1.0):
            d = {"value": float(val), "bound": float(tol)}
            d.update(detail or {})
            if sum(1 for v in self.viol if v["clause"] == name) < 6:
                self.viol.append({"clause": name, "mech": mech, "detail": d})

    def flag(self, name, bad, detail=None):
        self.margins[name] = max(self.margins.get(name, 0.0), 2.0 if bad else 0.0)
        if bad and sum(1 for v in self.viol if v["clause"] == name) < 6:
            self.viol.append({"clause": name, "mech": None, "detail": detail or {}})

    def result(self, nontrivial, obs):
        return {"nontrivial": bool(nontrivial), "violations": self.viol, "margins": self.margins, "monitors": self.mon,
                "cells": sorted(set(self.cells)), "obs": obs}


def _engine_args(eng, method):
    """-> (settings, xl params) for an engine name."""
    from vlib import run

    if eng == "sh":
        sett = run.settings(method, eps=EPS, converger=(2,), excited={"n_states": 2, "method": "cis", "tolerance": 1e-7})
        return sett, None
    sett = run.settings(method, eps=EPS, converger=(2,))
    if eng == "xl":
        return sett, {"k": 4}
    if eng == "ksa":
        return sett, {"k": 4, "max_rank": 2, "err_threshold": 0.0, "T_el": 1500}
    return sett, None


def _batch(names, g, sigma=0.03):
    mols = []
    for name in names:
        Z, X, q, m = gen.molecule(name)
        X = gen.distort(X, g, sigma=sigma)
        X = X @ gen.generic_rotation(X, g).T
        mols.append((Z, X))
    S, C = gen.pad_batch(mols)
    return S, C, [z for z, _ in mols]


def _comrem_hook(mol, mdo, store, on_after=None):
    """instance-level wrapper on _zero_com for thermostatted runs with periodic COM removal: kinetic energy of every molecule
    before / after each call (independent numpy arithmetic) and how often the removal really had kinetic energy to remove."""
    mass = mol.mass.detach().cpu().numpy()[..., 0]
    real = mol.species.detach().cpu().numpy() > 0
    orig = mdo._zero_com
    store.update({"calls": 0, "ke_events": 0, "worst": 0.0, "worst_detail": None})

    def zero_com(molecule, *a, **k):
        v = molecule.velocities.detach().cpu().numpy()
        kb = (mass[..., None] * v * v).sum(-1) * real
        P = (mass[..., None] * v * real[..., None]).sum(1)
        kcom = (P * P).sum(-1) / (2.0 * (mass * real).sum(1))
        r = orig(molecule, *a, **k)
        v2 = molecule.velocities.detach().cpu().numpy()
        ka = (mass[..., None] * v2 * v2).sum(-1) * real
        Kb, Ka = 0.5 * kb.sum(1), 0.5 * ka.sum(1)
        with np.errstate(all="ignore"):
            rel = np.where(Kb > 0, np.abs(Ka / Kb - 1.0), np.where(Ka == Kb, 0.0, np.inf))
        w = float(np.max(rel))  # np.max propagates NaN
        store["calls"] += 1
        store["ke_events"] += int((kcom > 1e-12 * np.maximum(Kb, 1e-300)).sum())
        if not (w <= store["worst"]):
            i = int(np.argmax(np.where(np.isnan(rel), np.inf, rel)))
            store["worst"] = w
            store["worst_detail"] = {"mol": i, "Ek_before_amu": float(Kb[i]), "Ek_after_amu": float(Ka[i]), "Ek_com_before_amu": float(kcom[i]),
                                     "args": [repr(x) for x in a], "kwargs": {kk: repr(vv) for kk, vv in k.items()}}
        if on_after is not None:
            on_after(ka)
        return r

    mdo._zero_com = zero_com


def _judge_comrem(acc, store, tag):
    if store.get("calls"):
        acc.upd("comrem-Ek", store["worst"], 1e-12, dict(store["worst_detail"] or {}, run=tag, calls=store["calls"]))
        acc.mon["comrem_ke_events"] += store["ke_events"]


def _kb_live():
    from vlib import md

    c = md.live_constants()
    return 1.0 / (c["KINETIC_ENERGY_SCALE"] * c["TEMPERATURE_SCALE"])


def _live_c(mdo, mol):
    """langevin_c1 (float), langevin_c2 as numpy [B, M]"""
    import torch

    c1 = float(mdo.langevin_c1)
    c2 = mdo.langevin_c2
    c2 = c2.detach().cpu().numpy() if torch.is_tensor(c2) else np.asarray(c2)
    c2 = np.broadcast_to(c2, tuple(mol.mass.shape)).reshape(mol.mass.shape[0], mol.mass.shape[1])
    return c1, c2


def _check_identity(acc, mdo, mol, dt, tau, T, tag):
    from vlib import md

    sp = mol.species.detach().cpu().numpy()
    mass = mol.mass.detach().cpu().numpy()[..., 0]
    c1, c2 = _live_c(mdo, mol)
    real = sp > 0
    det = {"engine": tag, "dt": dt, "tau": tau, "T": T}
    acc.upd("fd-c1", abs(c1 / math.exp(-dt / (2.0 * tau)) - 1.0), 1e-13, dict(det, c1=c1))
    if (~real).any():
        acc.flag("fd-padding", bool(np.any(c2[~real] != 0.0)), det)
    if T == 0.0:
        acc.flag("fd-T0", bool(np.any(c2 != 0.0)), det)
        acc.mon["identity_atoms"] += int(real.sum())
        return
    kb = _kb_live()
    noise = c2[real] ** 2 * mass[real] / (kb * T)
    want = -math.expm1(-dt / tau)
    i = int(np.argmax(np.abs(noise / want - 1.0)))
    det2 = dict(det, element=int(sp[real][i]), mass=float(mass[real][i]), c2=float(c2[real][i]), noise_part=float(noise[i]), want=want)
    acc.upd("fd-noise", np.abs(noise / want - 1.0).max(), 1e-12, det2)
    acc.upd("fd-identity", np.abs(noise + c1 * c1 - 1.0).max(), 1e-12, det2)
    noise_ref = c2[real] ** 2 * mass[real] / (md.REF_KB_AMU * T)
    acc.upd("fd-identity-codata", np.abs(noise_ref / want - 1.0).max(), 1e-6, det2)
    acc.mon["identity_atoms"] += int(real.sum())
    for z in np.unique(sp[real]):
        acc.cells.append("identity/%s/Z%d" % (tag, z))
    acc.cells.append("identity/%s/log10(dt/tau)=%d" % (tag, int(math.floor(math.log10(dt / tau)))))


def _identity(case):
    from vlib import md

    acc = _Acc()
    eng = case["engine"]
    g = np.random.default_rng(case["geom_seed"])
    # surface hopping only accepts homogeneous batches (basics.py raises NotImplementedError otherwise)
    names = BATCHES[case["method"]] if eng != "sh" else [case.get("sh_mol", "CH2O")] * 2
    S, C, Zs = _batch(names, g)
    sett, xl = _engine_args(eng, case["method"])
    out = md.output_cfg("/nonexistent/c12", molid=[0], data=0, coordinates=0, velocities=0, forces=0)
    mol = None
    done = 0
    errors = []
    with md.quiet():
        for dt, tau, T in case["grid"]:
            try:
                if mol is None:
                    mol, mdo = md.build_md(eng, S, C, sett, dt, T, out, damp=tau, xl=xl)
                    sett_shared = mol.seqm_parameters
                else:
                    mdo = md.make_engine(eng, sett_shared, dt, T, out, damp=tau, xl=xl)
                    mol.velocities = None
                mdo.initialize(mol, remove_com=None, learned_parameters={}, steps=None)
            except Exception as exc:  # an engine that cannot initialise is a harness problem here, not a verdict
                errors.append("%s: %s" % (type(exc).__name__, str(exc)[:200]))
                if mol is None or len(errors) > 3:
                    break
                continue
            if not hasattr(mdo, "langevin_c1"):
                acc.flag("fd-state-present", True, {"engine": eng, "dt": dt, "tau": tau})
                continue
            _check_identity(acc, mdo, mol, dt, tau, T, eng)
            done += 1
    if done == 0:
        return {"inconclusive": "no grid point initialised: %s" % errors[:2]}
    # reuse of ONE driver object: new target temperature, then another molecule of the same padded shape
    try:
        with md.quiet():
            dt, tau, T1, T2 = 0.3, 4.0, 50.0, 600.0
            mdo = md.make_engine(eng, sett_shared, dt, T1, out, damp=tau, xl=xl)
            mol.velocities = None
            mdo.initialize(mol, remove_com=None, learned_parameters={}, steps=None)
            _check_identity(acc, mdo, mol, dt, tau, T1, eng + "/reuse-first")
            mdo.Temp = T2
            mol.velocities = None
            mdo.initialize(mol, remove_com=None, learned_parameters={}, steps=None)
            _check_identity(acc, mdo, mol, dt, tau, T2, eng + "/reuse-Temp")
            acc.mon["identity_reuse"] += 1
            if eng != "sh":  # surface hopping only takes homogeneous batches: no same-shape different-element partner
                mol2, _ = md.build_md("basic", S[::-1], C[::-1], sett, dt, T2, out)
                if np.array_equal(np.asarray(S[::-1]), np.asarray(S)):
                    raise RuntimeError("reversed batch has the same species layout")
                mdo.initialize(mol2, remove_com=None, learned_parameters={}, steps=None)
                _check_identity(acc, mdo, mol2, dt, tau, T2, eng + "/reuse-molecule")
                acc.mon["identity_reuse"] += 1
    except Exception as exc:
        errors.append("reuse stage: %s: %s" % (type(exc).__name__, str(exc)[:200]))
    acc.mon["identity_engines"] += 1
    return acc.result(True, {"engine": eng, "grid_points": done, "errors": errors[:3], "elements": sorted({z for zz in Zs for z in zz})})


# ---------------------------------------------------------------------------------------
def _quantiles(n):
    from scipy.stats import chi2

    return float(chi2.ppf(ALPHA / 2.0, n)), float(chi2.isf(ALPHA / 2.0, n))


def _ensemble(case):
    import types

    import torch
    from vlib import md

    acc = _Acc()
    eng, dt, tau, T = case["engine"], case["dt"], case["tau"], case["T"]
    g = np.random.default_rng(case["geom_seed"])
    names = ["H2O", "CH4", "NH3"] if eng != "sh" else ["CH2O", "CH2O"]
    S, C, Zs = _batch(names, g)
    sett, xl = _engine_args(eng, "AM1")
    out = md.output_cfg("/nonexistent/c12", molid=[0], data=0, coordinates=0, velocities=0, forces=0)
    kb = _kb_live()
    sp = np.asarray(S)
    real = sp > 0
    obs = {"worst_z": 0.0}
    ntests = 0
    with md.quiet():
        mol, mdo = md.build_md(eng, S, C, sett, dt, T, out, damp=tau, xl=xl)
        mdo.initialize(mol, remove_com=None, learned_parameters={}, steps=None)
        mass = mol.mass.detach().cpu().numpy()[..., 0]
        sett_shared = mol.seqm_parameters
        md0 = md.make_engine(eng, sett_shared, dt, 0.0, out, damp=tau, xl=xl)
        mol.velocities = None
        md0.initialize(mol, remove_com=None, learned_parameters={}, steps=None)
    c1_ref2 = math.exp(-dt / tau)  # c1^2 from the inputs, not from the code
    R = case["rows"]
    torch.manual_seed(case["seed"])
    rg = np.random.default_rng(case["seed"])
    for ratio in (1.0, 0.3, 3.0):
        T0 = ratio * T
        sd = np.zeros(sp.shape)
        sd[real] = np.sqrt(kb * T0 / mass[real])
        V = torch.as_tensor(rg.normal(size=(R,) + sp.shape + (3,)) * sd[None, :, :, None])
        ns = types.SimpleNamespace(velocities=V)
        for n in range(1, case["nupd"] + 1):
            mdo._apply_langevin_thermostat(ns)
            acc.mon["thermostat_updates"] += 1
            v = ns.velocities.detach().cpu().numpy()
            Tn = c1_ref2 ** n * T0 + (1.0 - c1_ref2 ** n) * T
            acc.flag("ou-padding", bool(np.any(v[:, ~real] != 0.0)), {"update": n})
            for z in np.unique(sp[real]):
                sel = sp == z
                vv = v[:, sel]  # [R, natoms_z, 3]
                mz = mass[sel][None, :, None]
                N = vv.size
                stat = float((mz * vv * vv).sum() / (kb * Tn))
                lo, hi = _quantiles(N)
                zscore = (stat - N) / math.sqrt(2.0 * N)
                obs["worst_z"] = max(obs["worst_z"], abs(zscore))
                det = {"engine": eng, "dt": dt, "tau": tau, "T": T, "T0": T0, "update": n, "element": int(z), "N": N,
                       "stat_over_N": stat / N, "chi2_window_over_N": [lo / N, hi / N], "z": zscore}
                m_ = float(np.max(np.array([(stat - N) / (hi - N), (N - stat) / (N - lo)])))  # np.max propagates NaN
                acc.upd("ou-chi2", 0.0 if m_ <= 0.0 else m_, 1.0, det)
                zm = float((np.sqrt(mz) * vv).sum() / math.sqrt(N * kb * Tn))
                acc.upd("ou-mean", abs(zm), Z_MEAN, dict(det, z_mean=zm))
                ntests += 2
                acc.cells.append("ensemble/%s/T0overT=%g/Z%d" % (eng, ratio, z))
    # T = 0: the update may only remove kinetic energy, row by row
    sd = np.zeros(sp.shape)
    sd[real] = np.sqrt(kb * max(T, 100.0) / mass[real])
    V = torch.as_tensor(rg.normal(size=(min(R, 2000),) + sp.shape + (3,)) * sd[None, :, :, None])
    ns = types.SimpleNamespace(velocities=V)
    mrow = mass[None, :, :, None]
    ek = (mrow * V.numpy() ** 2).sum(axis=(2, 3))
    for n in range(4):
        md0._apply_langevin_thermostat(ns)
        acc.mon["thermostat_updates"] += 1
        ek2 = (mrow * ns.velocities.numpy() ** 2).sum(axis=(2, 3))
        acc.flag("ou-T0-heating", not bool(np.all(ek2 <= ek)), {"update": n, "max_increase": float((ek2 - ek).max())})
        ek = ek2
    acc.mon["stat_tests"] += ntests
    obs.update({"tests": ntests, "rows": R, "engine": eng, "c1_live": float(mdo.langevin_c1), "c1_ref": math.sqrt(c1_ref2)})
    return acc.result(True, obs)


# ---------------------------------------------------------------------------------------
def _meanT(case):
    from vlib import env, md

    acc = _Acc()
    g = np.random.default_rng(case["geom_seed"])
    Zw, Xw, _, _ = gen.molecule("H2O")
    Zh, Xh, _, _ = gen.molecule("H2")
    mols = []
    for i in range(case["nH2O"]):
        mols.append((Zw, Xw @ gen.generic_rotation(Xw, g).T))
    for i in range(case["nH2"]):
        mols.append((Zh, Xh @ gen.generic_rotation(Xh, g).T))
    S, C = gen.pad_batch(mols)
    sp = np.asarray(S)
    real = sp > 0
    from vlib import run

    sett = run.settings("AM1", eps=1e-7, converger=(2,))
    T, dt, tau = case["T"], case["dt"], case["tau"]
    nwatch = 4
    molid = [k for k in [0, 1, case["nH2O"], case["nH2O"] + 1][:nwatch] if k < len(S)]
    series = []  # per step: m v^2 per atom summed over xyz, [B, M]

    def pre_run(mol, mdo):
        mass = mol.mass.detach().cpu().numpy()[..., 0]
        pre_run.mass = mass
        orig = mdo._do_integrator_step

        def step(i, molecule, *a, **kw):
            r = orig(i, molecule, *a, **kw)
            v = molecule.velocities.detach().cpu().numpy()
            series.append((mass[..., None] * v * v).sum(-1))
            fresh_row[0] = True
            return r

        mdo._do_integrator_step = step

        def after_removal(ka):  # the state the run reports for this step is the one AFTER the periodic COM removal
            if fresh_row[0] and series:
                series[-1] = ka
                fresh_row[0] = False

        if rc is not None:
            _comrem_hook(mol, mdo, comrem, on_after=after_removal)

    rc = tuple(case["remove_com"]) if case.get("remove_com") else None
    comrem, fresh_row = {}, [False]
    stage1 = case.get("stage1")  # {"T": K, "steps": n}: the SAME driver object is first run at another target temperature
    rec = {"h5": {}}
    try:
        with env.Scratch("c12") as d, md.quiet():
            out = md.output_cfg(d + "/m", molid, coordinates=0, velocities=0, forces=0)
            mol, mdo = md.build_md("langevin", S, C, sett, dt, stage1["T"] if stage1 else T, out, damp=tau)
            pre_run(mol, mdo)
            if stage1:
                mdo.run(mol, steps=int(stage1["steps"]), seed=case["seed"])
                del series[:]
                mdo.Temp = float(T)  # staged heating: same driver, same molecule, new target
            mdo.run(mol, steps=int(case["steps"]), seed=case["seed"] + 1, remove_com=rc)
            for k in molid:
                rec["h5"][k] = md.read_h5("%s/m.%d.h5" % (d, k))
    except Exception as exc:
        return {"inconclusive": "langevin run raised: %s: %s" % (type(exc).__name__, str(exc)[:300])}
    if len(series) != case["steps"]:
        return {"inconclusive": "step hook saw %d of %d steps" % (len(series), case["steps"])}
    A = np.array(series)  # [steps, B, M]
    nat = real.sum(1)
    # hook thermometer vs HDF5 rows (n_dof = 3N for Langevin)
    for k in molid:
        Th = A[:, k, :].sum(-1) * md.REF_KE_SCALE * md.REF_TEMP_SCALE / (3.0 * nat[k])
        acc.upd("meanT-h5", np.abs(Th / rec["h5"][k]["T"][1:] - 1.0).max(), 1e-6, {"mol": k})
    W = A[case["burn"]:]
    nW = W.shape[0]
    neff = max(1.0, nW * dt / (4.0 * tau))
    groups = {"all": real, "O": sp == 8, "H(H2O)": (sp == 1) & (np.arange(len(S))[:, None] < case["nH2O"]),
              "H(H2)": (sp == 1) & (np.arange(len(S))[:, None] >= case["nH2O"])}
    obs = {"window_steps": nW, "N_eff_per_dof": neff, "replicas": len(S)}
    sums = {}
    for name, sel in groups.items():
        if not sel.any():
            continue
        ndof = 3.0 * sel.sum()
        Tm = float(W[:, sel].sum() / nW / (ndof * md.REF_KB_AMU))
        sigma = math.sqrt(2.0 / (ndof * neff))
        tol = 6.0 * sigma + 0.01
        obs[name] = {"mean_T_over_target": Tm / T, "tolerance": tol}
        if rc is not None and name != "all":
            # with periodic COM removal the documented design (n_dof = 3N, removed energy given back by a uniform rescale) fixes the
            # TOTAL kinetic temperature only; per-element temperatures are recorded, not judged (O 52 K / H 428 K at stride 1)
            continue
        acc.upd("meanT" if name == "all" else "meanT-" + name, abs(Tm / T - 1.0), tol,
                {"group": name, "mean_T": Tm, "target": T, "sigma_rel": sigma, "dt": dt, "tau": tau, "n_dof": ndof, "remove_com": rc})
        sums[name] = [float(W[:, sel].sum() / (md.REF_KB_AMU * T)), float(ndof * nW), float(ndof * neff)]
    acc.mon["meanT_samples"] += int(nW * len(S))
    _judge_comrem(acc, comrem, "meanT")
    acc.cells.append("meanT/dt%g/tau%g/T%g%s%s" % (dt, tau, T, "/after-stage-at-%gK" % stage1["T"] if stage1 else "",
                                                 "/rc-%s%d" % (rc[0], rc[1]) if rc else ""))
    if stage1:
        acc.mon["meanT_reused_driver"] += 1
    obs["pool"] = sums
    return acc.result(True, obs)


# ---------------------------------------------------------------------------------------
def _supplied_system(case, sigma=0.03):
    from vlib import md

    g = np.random.default_rng(case["geom_seed"])
    S, C, Zs = _batch(case["mols"], g, sigma)
    V = np.array([md.supplied_velocities(s_, np.array(c_), 300.0, g) for s_, c_ in zip(S, C)])
    return S, C, Zs, V


def _tauinf(case):
    from vlib import env, md, run

    acc = _Acc()
    S, C, Zs, V = _supplied_system(case)
    sett = run.settings(case["method"], eps=1e-10, converger=(2,))
    damp = float("inf") if case["damp"] == "inf" else float(case["damp"])
    molid = list(range(len(S)))
    n, dt = case["steps"], case["dt"]
    with env.Scratch("c12") as d:
        a = md.run_md("basic", S, C, sett, dt, case["T"], n, d + "/nve", molid=molid, velocities=V, seed=case["seed"])
        b = md.run_md("langevin", S, C, sett, dt, case["T"], n, d + "/lv", molid=molid, velocities=V, damp=damp, seed=case["seed"])
    if a["error"] or b["error"]:
        return {"inconclusive": "run raised: %s / %s" % (a["error"], b["error"])}
    mmin = min(md.masses(z).min() for z in Zs)
    c2max = math.sqrt(-math.expm1(-dt / damp) * md.REF_KB_AMU * case["T"] / mmin)
    tol = 1e-9 + 20.0 * c2max * math.sqrt(2.0 * n) * n * dt
    obs = {"c2_max": c2max, "tol": tol}
    for k in molid:
        dx = float(np.abs(a["h5"][k]["coordinates"] - b["h5"][k]["coordinates"]).max())
        dv = float(np.abs(a["h5"][k]["velocities"] - b["h5"][k]["velocities"]).max())
        moved = float(np.abs(a["h5"][k]["coordinates"][-1] - a["h5"][k]["coordinates"][0]).max())
        acc.upd("tauinf", dx, tol, {"mol": k, "damp": case["damp"], "moved": moved})
        acc.upd("tauinf-v", dv, tol + 20.0 * c2max * math.sqrt(2.0 * n), {"mol": k, "damp": case["damp"]})
        if moved > 1e-3:
            acc.mon["tauinf_pairs"] += 1
        obs["mol%d" % k] = {"dx": dx, "dv": dv, "moved": moved}
    acc.cells.append("tauinf/damp=%s" % case["damp"])
    return acc.result(True, obs)


def _tzero(case):
    from vlib import env, md, run

    acc = _Acc()
    S, C, Zs, V = _supplied_system(case, sigma=0.05)
    sett = run.settings(case["method"], eps=1e-10, converger=(2,))
    molid = list(range(len(S)))
    n, dt = case["steps"], case["dt"]
    hook = {"calls": 0, "bad": []}

    def pre_run(mol, mdo):
        mass = mol.mass.detach().cpu().numpy()[..., 0]
        orig = mdo._apply_langevin_thermostat

        def thermo(molecule):
            v0 = molecule.velocities.detach().cpu().numpy()
            e0 = (mass[..., None] * v0 * v0).sum(axis=(1, 2))
            r = orig(molecule)
            v1 = molecule.velocities.detach().cpu().numpy()
            e1 = (mass[..., None] * v1 * v1).sum(axis=(1, 2))
            hook["calls"] += 1
            if not np.all(e1 <= e0):  # NaN counts as an increase
                hook["bad"].append(float((e1 - e0).max()))
            return r

        mdo._apply_langevin_thermostat = thermo

    with env.Scratch("c12") as d:
        a = md.run_md("basic", S, C, sett, dt, 0.0, n, d + "/nve", molid=molid, velocities=V, seed=case["seed"])
        b = md.run_md("langevin", S, C, sett, dt, 0.0, n, d + "/lv", molid=molid, velocities=V, damp=case["tau"], seed=case["seed"],
                      pre_run=pre_run)
    if a["error"] or b["error"]:
        return {"inconclusive": "run raised: %s / %s" % (a["error"], b["error"])}
    acc.mon["tzero_hook_calls"] += hook["calls"]
    acc.flag("tzero-hook", bool(hook["bad"]), {"increases": hook["bad"][:5], "calls": hook["calls"]})
    obs = {"hook_calls": hook["calls"]}
    for k in molid:
        En = a["h5"][k]["Ek"] + a["h5"][k]["Ep"]
        El = b["h5"][k]["Ek"] + b["h5"][k]["Ep"]
        amp = float(np.abs(En - En[0]).max())
        tol = 2.0 * amp + 1e3 * 1e-10
        runmin = np.minimum.accumulate(El)
        rise = float((El[1:] - runmin[:-1]).max())
        acc.upd("tzero-energy", 0.0 if rise <= 0.0 else rise, tol, {"mol": k, "nve_amplitude": amp, "tau": case["tau"]})
        acc.flag("tzero-removed", not (El[-1] < El[0]), {"mol": k, "E0": float(El[0]), "Eend": float(El[-1])})
        obs["mol%d" % k] = {"removed_eV": float(El[0] - El[-1]), "max_rise": rise, "nve_amp": amp}
    acc.cells.append("tzero/tau%g" % case["tau"])
    return acc.result(True, obs)


def _calls(case):
    from vlib import env, md

    acc = _Acc()
    eng, damp = case["engine"], case["damp"]
    g = np.random.default_rng(case["geom_seed"])
    S, C, Zs = _batch(case["mols"], g)
    sett, xl = _engine_args(eng, "AM1")
    events = []

    rc = tuple(case["remove_com"]) if case.get("remove_com") else None
    comrem = {}

    def pre_run(mol, mdo):
        o_step, o_th, o_es = mdo._do_integrator_step, mdo._apply_langevin_thermostat if hasattr(mdo, "_apply_langevin_thermostat") else None, mdo.esdriver.forward
        if rc is not None:
            _comrem_hook(mol, mdo, comrem)

        def step(i, molecule, *a, **kw):
            events.append(("S", i))
            return o_step(i, molecule, *a, **kw)

        def thermo(molecule, *a, **kw):
            events.append(("T", None))
            return o_th(molecule, *a, **kw)

        def es(*a, **k):
            events.append(("E", None))
            return o_es(*a, **k)

        mdo._do_integrator_step = step
        if o_th is not None:
            mdo._apply_langevin_thermostat = thermo
        mdo.esdriver.forward = es

    with env.Scratch("c12") as d:
        rec = md.run_md(eng, S, C, sett, 0.2, 300.0, case["steps"], d + "/c", molid=[0], damp=damp, xl=xl, seed=case["seed"],
                        pre_run=pre_run, remove_com=rc)
    if rec["error"]:
        return {"inconclusive": "%s run raised: %s" % (eng, rec["error"][:300])}
    # split the event log per integrator step
    steps, cur = [], None
    for e in events:
        if e[0] == "S":
            cur = []
            steps.append(cur)
        elif cur is not None:
            cur.append(e[0])
    want = 2 if damp is not None else 0
    for i, evs in enumerate(steps):
        nT = evs.count("T")
        bad = nT != want or (want == 2 and not (evs[0] == "T" and evs[-1] == "T" and "E" in evs))
        acc.flag("calls", bad, {"engine": eng, "damp": damp, "step": i, "events": "".join(evs), "thermostat_calls": nT, "expected": want})
        acc.mon["call_steps_damped" if want else "call_steps_undamped"] += 1
    if len(steps) != case["steps"]:
        acc.flag("calls", True, {"engine": eng, "steps_seen": len(steps), "planned": case["steps"]})
    _judge_comrem(acc, comrem, "calls/%s" % eng)
    acc.cells.append("calls/%s/%s%s" % (eng, "damped" if want else "undamped", "/rc-%s%d" % (rc[0], rc[1]) if rc else ""))
    return acc.result(len(steps) > 0, {"engine": eng, "damp": damp, "per_step_events": ["".join(e) for e in steps]})


def _firstnoise(case):
    """seeded FRESH run with driver-sampled velocities, many replicas in one padded batch: the first thermostat noise vector must be
    independent of the initial velocities.  xi is recovered from the first real half-step update, xi = (v_after - c1 v_before)/c2 with
    the live coefficients; u = v_before sqrt(m/(kB T)).  z = xi.u/|u| is exactly N(0,1) under independence (|z| <= 7.2), and
    Ek_after/Ek_before follows the OU expectation c1^2 + (1-c1^2) N kT/(2 Ek_before) within 7.2 sigma."""
    from vlib import env, md, run

    acc = _Acc()
    g = np.random.default_rng(case["geom_seed"])
    mols = []
    for name, cnt in (("CH4", case["nCH4"]), ("H2O", case["nH2O"])):
        Z, X, _, _ = gen.molecule(name)
        for _i in range(cnt):
            mols.append((Z, X @ gen.generic_rotation(X, g).T))
    S, C = gen.pad_batch(mols)
    eng = case["engine"]
    sett, xl = _engine_args(eng, "AM1")
    sett["scf_eps"] = 1e-6
    T, dt, tau = case["T"], case["dt"], case["tau"]
    cap = {}

    def pre_run(mol, mdo):
        orig = mdo._apply_langevin_thermostat

        def thermo(molecule, *a, **k):
            first = "vb" not in cap
            if first:
                cap["vb"] = molecule.velocities.detach().cpu().numpy().copy()
            r = orig(molecule, *a, **k)
            if first:
                cap["va"] = molecule.velocities.detach().cpu().numpy().copy()
                cap["c1"], cap["c2"] = _live_c(mdo, molecule)
                cap["mass"] = molecule.mass.detach().cpu().numpy()[..., 0]
            return r

        mdo._apply_langevin_thermostat = thermo

    with env.Scratch("c12") as d:
        rec = md.run_md(eng, S, C, sett, dt, T, 1, d + "/f", molid=[0], damp=tau, xl=xl, seed=case["seed"], pre_run=pre_run,
                        out_kw=dict(coordinates=0, velocities=0, forces=0))
    if rec["error"]:
        return {"inconclusive": "%s run raised: %s" % (eng, rec["error"][:300])}
    if "va" not in cap:
        return {"inconclusive": "no thermostat call observed"}
    real = np.asarray(S) > 0
    c1, c2, mass = cap["c1"], cap["c2"], cap["mass"]
    kb = _kb_live()
    vb, va = cap["vb"][real], cap["va"][real]  # [n_real, 3]
    c2r, mr = c2[real][:, None], mass[real][:, None]
    xi = (va - c1 * vb) / c2r
    u = vb * np.sqrt(mr / (kb * T))
    N = xi.size
    z = float((xi * u).sum() / math.sqrt((u * u).sum()))
    zn = float(((xi * xi).sum() - N) / math.sqrt(2.0 * N))  # the recovered noise is unit normal
    ekb, eka = float(0.5 * (mr * vb * vb).sum()), float(0.5 * (mr * va * va).sum())
    s2 = 1.0 - c1 * c1
    expect = c1 * c1 + s2 * (0.5 * N * kb * T) / ekb
    sd = math.sqrt(c1 * c1 * s2 * float((u * u).sum()) + 0.5 * s2 * s2 * N) * kb * T / ekb
    det = {"engine": eng, "seed": case["seed"], "N": N, "corr": z / math.sqrt(N), "z": z, "Ek_ratio": eka / ekb, "Ek_ratio_expected": expect,
           "Ek_ratio_sigma": sd, "dt_over_tau": dt / tau}
    acc.upd("firstnoise-correlation", abs(z), Z_MEAN, det)
    acc.upd("firstnoise-unit-variance", abs(zn), Z_MEAN, det)
    acc.upd("firstnoise-Ek-ratio", abs(eka / ekb - expect), Z_MEAN * sd, det)
    acc.flag("firstnoise-padding", bool(np.any(cap["va"][~real] != 0.0)), det)
    acc.mon["stat_tests"] += 3
    acc.mon["first_noise_correlated_runs"] += 1
    acc.cells.append("firstnoise/%s/T%g" % (eng, T))
    return acc.result(True, det)


class _SimulatedCrash(RuntimeError):
    pass


def _resumed(case):
    """run with checkpoints, crash by exception right after a checkpoint, run_from_checkpoint; the REBUILT engine (class-level
    wrappers) must make exactly two thermostat calls per step iff the original run was damped, with exact live coefficients."""
    import seqm.MolecularDynamics as MD
    from seqm.NonadiabaticDynamics import NonadiabaticDynamicsBase, SurfaceHoppingDynamics
    from vlib import env, md

    acc = _Acc()
    eng, damp = case["engine"], case["damp"]
    g = np.random.default_rng(case["geom_seed"])
    S, C, Zs = _batch(case["mols"], g)
    sett, xl = _engine_args(eng, "AM1")
    events, seen = [], {}
    classes = [c for c in (MD.Molecular_Dynamics_Basic, MD.Molecular_Dynamics_Langevin, MD.XL_BOMD, MD.KSA_XL_BOMD, MD.XL_ESMD,
                           NonadiabaticDynamicsBase, SurfaceHoppingDynamics)]
    saved = []

    def wrap_step(cls):
        orig = cls.__dict__["_do_integrator_step"]

        def step(self_, i, molecule, *a, **k):
            events.append(("S", i))
            seen["obj"], seen["mol"] = self_, molecule
            return orig(self_, i, molecule, *a, **k)

        saved.append((cls, "_do_integrator_step", orig))
        cls._do_integrator_step = step

    def wrap_thermo(cls):
        orig = cls.__dict__["_apply_langevin_thermostat"]

        def thermo(self_, molecule):
            events.append(("T", None))
            return orig(self_, molecule)

        saved.append((cls, "_apply_langevin_thermostat", orig))
        cls._apply_langevin_thermostat = thermo

    obs = {"engine": eng, "damp": damp}
    try:
        for c in classes:
            if "_do_integrator_step" in c.__dict__:
                wrap_step(c)
            if "_apply_langevin_thermostat" in c.__dict__:
                wrap_thermo(c)
        with env.Scratch("c12") as d, md.quiet():
            out = md.output_cfg(d + "/r", list(range(len(S))), checkpoint=case["ckpt"])
            mol, mdo = md.build_md(eng, S, C, sett, case["dt"], case["T"], out, damp=damp, xl=xl)
            orig_save = mdo.save_checkpoint

            def save_and_crash(*a, **k):
                orig_save(*a, **k)
                raise _SimulatedCrash("crash right after the checkpoint")

            mdo.save_checkpoint = save_and_crash
            try:
                mdo.run(mol, steps=case["steps"], reuse_P=True, remove_com=None, seed=case["seed"])
                return {"inconclusive": "the run did not reach a checkpoint"}
            except _SimulatedCrash:
                pass
            first_leg = list(events)
            del events[:]
            seen.clear()
            loader = SurfaceHoppingDynamics if eng == "sh" else MD.Molecular_Dynamics_Basic
            try:
                loader.run_from_checkpoint(d + "/r.restart.pt")
            except Exception as exc:
                acc.flag("resume-raised", True, {"engine": eng, "damp": damp, "error": "%s: %s" % (type(exc).__name__, str(exc)[:300])})
                return acc.result(False, obs)
            robj, rmol = seen.get("obj"), seen.get("mol")
            if robj is None or robj is mdo:
                return {"inconclusive": "no integrator step observed on a rebuilt engine"}
            obs["resumed_class"] = type(robj).__name__
            obs["resumed_damp"] = getattr(robj, "damp", "missing")
            if damp is not None:
                if hasattr(robj, "langevin_c1") and getattr(robj, "damp", None) is not None:
                    _check_identity(acc, robj, rmol, float(robj.timestep), float(robj.damp), float(robj.Temp), eng + "/resumed")
                    acc.upd("resume-parameters", max(abs(float(robj.damp) / damp - 1.0), abs(float(robj.timestep) / case["dt"] - 1.0),
                                                     abs(float(robj.Temp) / case["T"] - 1.0)), 1e-12,
                            {"damp": [damp, float(robj.damp)], "dt": [case["dt"], float(robj.timestep)], "T": [case["T"], float(robj.Temp)]})
                else:
                    acc.flag("resume-thermostat-state", True, {"engine": eng, "original_damp": damp, "resumed_damp": getattr(robj, "damp", "missing"),
                                                                "has_coefficients": hasattr(robj, "langevin_c1")})
    finally:
        for cls, name, orig in saved:
            setattr(cls, name, orig)
    steps, cur = [], None
    for e in events:
        if e[0] == "S":
            cur = []
            steps.append(cur)
        elif cur is not None:
            cur.append(e[0])
    want = 2 if damp is not None else 0
    for i, evs in enumerate(steps):
        nT = evs.count("T")
        bad = nT != want or (want == 2 and not (evs[0] == "T" and evs[-1] == "T"))
        acc.flag("calls-resumed", bad, {"engine": eng, "original_damp": damp, "resumed_step": i, "events": "".join(evs), "thermostat_calls": nT,
                                        "expected": want})
        acc.mon["resumed_steps_damped" if want else "resumed_steps_undamped"] += 1
    n_first = sum(1 for e in first_leg if e[0] == "S")
    if len(steps) + n_first != case["steps"]:
        acc.flag("calls-resumed", True, {"engine": eng, "steps_first_leg": n_first, "steps_resumed": len(steps), "planned": case["steps"]})
    acc.cells.append("resumed/%s/%s" % (eng, "damped" if want else "undamped"))
    obs["per_step_events_resumed"] = ["".join(e) for e in steps]
    return acc.result(len(steps) > 0, obs)


def run_case(case):
    if case["kind"] == "resumed":
        return _resumed(case)
    if case["kind"] == "firstnoise":
        return _firstnoise(case)
    return {"identity": _identity, "ensemble": _ensemble, "meanT": _meanT, "tauinf": _tauinf, "tzero": _tzero,
            "calls": _calls}[case["kind"]](case)


def summarize(cases, results, report):
    """pooled mean-temperature test over all meanT cases + bookkeeping of the number of statistical tests."""
    tot = {}
    first = None
    for c, r in zip(cases, results):
        if c.get("kind") == "meanT" and r and r.get("obs") and "pool" in r["obs"]:
            first = first or (c, r)
            for name, (s_, n_, ne) in r["obs"]["pool"].items():
                t = tot.setdefault(name, [0.0, 0.0, 0.0])
                t[0] += s_
                t[1] += n_
                t[2] += ne
    pooled = {}
    for name, (s_, n_, ne) in tot.items():
        ratio = s_ / n_
        sigma = math.sqrt(2.0 / ne)
        tol = 6.0 * sigma + 0.01
        pooled[name] = {"mean_T_over_target": ratio, "tolerance": tol}
        m = abs(ratio - 1.0) / tol
        key = "meanT-pooled" if name == "all" else "meanT-pooled-" + name
        report.margins[key] = {"worst": m, "case": "pooled", "n": 1}
        if not (m <= 1.0) and first is not None:
            report.violations.append((first[0], {"clause": key, "mech": None,
                                                 "detail": {"pooled_ratio": ratio, "tolerance": tol, "group": name}}, first[1].get("obs")))
    ntests = report.monitors.get("stat_tests", 0) + 4 * sum(1 for c in cases if c.get("kind") == "meanT") + len(tot)
    if ntests > MAX_TESTS:
        report.notes.append("number of statistical tests %d exceeds the %d the false-alarm budget was computed for" % (ntests, MAX_TESTS))
        report.inconclusive.append({"case": "run", "reason": "statistical test count above budget"})
    return {"pooled_mean_temperature": pooled, "statistical_tests": ntests, "per_test_alpha": ALPHA,
            "false_alarm_bound_per_run": ntests * ALPHA}
