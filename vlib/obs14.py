"""Post-condition bundle of property C14 on `Electronic_Structure.forward` (worker side: needs torch and
the repository).  `bundle(mol, es, sett, charges, mults)` inspects the attributes the call left on the
molecule and recomputes, independently of the code under test,

  * Etot = Eelec + Enuc (+ excitation energy of the active state),
  * Enuc from the published MNDO / AM1 / PM3 core-core formulas and the shipped CSV tables,
  * the isolated-atom energies (electron-configuration formula of MOPAC's EISOL) and atomic heats of
    formation (MOPAC BLOCK DATA values in kcal/mol, 23.061 kcal/mol per eV), hence Hf,
  * orbital energies = eigenvalues of the Fock matrix rebuilt from the RETURNED density (the rebuild uses
    the repository's own `hcore` + `fock`/`fock_u_batch`: trusted here, checked by C06), ascending,
  * gap = e[nocc] - e[nocc-1] (per spin for UHF) with nocc from the valence-electron count,
  * charges = core charge - block-diagonal populations of dm, summing to the molecular charge
    (1e-9 + 10 sp2_tol + 15 eps n_orb max(1, alpha/(1-alpha)): the mixed iterate of an ion keeps alpha^k of the charge),
  * dipole = sum_A q_A r_A - 2 sum_A D1_A P_{s,p}(A), D1 from the CSV exponents.

It is used by props/c14_observable_consistency.py as the deciding oracle and can be attached in
observe-only mode to other workloads (C01 does)."""
import math
import os

import numpy as np

from . import env

VALENCE = {0: 0, 1: 1, 3: 1, 4: 2, 5: 3, 6: 4, 7: 5, 8: 6, 9: 7, 11: 1, 12: 2, 13: 3, 14: 4, 15: 5, 16: 6, 17: 7}
# valence-shell configuration (ns, np) of the neutral atom
CONFIG = {1: (1, 0), 3: (1, 0), 4: (2, 0), 5: (2, 1), 6: (2, 2), 7: (2, 3), 8: (2, 4), 9: (2, 5),
          11: (1, 0), 12: (2, 0), 13: (2, 1), 14: (2, 2), 15: (2, 3), 16: (2, 4), 17: (2, 5)}
PQN = {1: 1, 3: 2, 4: 2, 5: 2, 6: 2, 7: 2, 8: 2, 9: 2, 11: 3, 12: 3, 13: 3, 14: 3, 15: 3, 16: 3, 17: 3}
# experimental heats of formation of the atoms, kcal/mol (MOPAC BLOCK DATA, EHEAT)
EHEAT_KCAL = {1: 52.102, 3: 38.410, 4: 76.960, 5: 135.700, 6: 170.890, 7: 113.000, 8: 59.559, 9: 18.890,
              11: 25.850, 12: 35.000, 13: 79.490, 14: 108.390, 15: 75.570, 16: 66.400, 17: 28.990}
EV_KCAL = 23.061
EV = 27.21          # e^2/bohr in eV (MOPAC-7)
A0 = 0.529167       # bohr in Angstrom (MOPAC-7)
E_ANG_TO_AU_CODATA = 1.0 / 0.529177210903

TOL_ETOT = 1e-9
TOL_ENUC = 1e-6
TOL_HF = 1e-9
TOL_EISO = 1e-9
TOL_EMO = 1e-8
TOL_GAP = 1e-10
TOL_PAIRING = 1e-7   # x max(1, max|F|): residual of F c_k = e_k c_k (clean tree: 1e-14)
TOL_ASC = 1e-9       # ties of degenerate levels may come out in either order at round-off level
TOL_Q = 1e-10
TOL_QSUM = 1e-9
TOL_DIP = 1e-9
SP2_MIN, SP2_MAX = 1e-7, 1e-3

_TABLES = {}


def table(method):
    """parameter table of the shipped CSV: {Z: {name: float}} (own reader, float64)."""
    if method not in _TABLES:
        fn = os.path.join(env.REPO, "seqm", "params", "parameters_%s_MOPAC.csv" % method)
        t = {}
        with open(fn) as f:
            hdr = f.readline().strip().replace(" ", "").split(",")
            for line in f:
                c = line.strip().replace(" ", "").split(",")
                try:
                    z = int(c[0])
                except ValueError:
                    continue
                row = {}
                for k, v in zip(hdr[2:], c[2:]):
                    try:
                        row[k] = float(v)
                    except ValueError:
                        pass
                t[z] = row
        _TABLES[method] = t
    return _TABLES[method]


def eisol(method, z):
    """electronic energy of the isolated atom from its valence configuration (MOPAC EISOL formula)."""
    p = table(method)[z]
    ns, np_ = CONFIG[z]
    k = np_
    l = min(k, 6 - k)
    gssc = max(ns - 1, 0)
    gspc = ns * k
    gp2c = (k * (k - 1)) / 2.0 + 0.5 * (l * (l - 1)) / 2.0
    gppc = -0.5 * (l * (l - 1)) / 2.0
    hspc = -k if ns == 2 else 0
    return (p["U_ss"] * ns + p["U_pp"] * k + p["g_ss"] * gssc + p["g_pp"] * gppc + p["g_sp"] * gspc
            + p["g_p2"] * gp2c + p["h_sp"] * hspc)


def d1_bohr(method, z):
    """dipole charge separation D1 of the sp product (bohr); hydrogen has none."""
    if z < 3:
        return 0.0
    p = table(method)[z]
    n = PQN[z]
    zs, zp = p["zeta_s"], p["zeta_p"]
    if zs == 0 or zp == 0:
        return 0.0
    return (2 * n + 1) * (4 * zs * zp) ** (n + 0.5) / ((zs + zp) ** (2 * n + 2) * math.sqrt(3.0))


def enuc_pairs(method, Z, X):
    """core-core repulsion of one molecule from the published MNDO/AM1/PM3 expressions; None if not covered."""
    if method not in ("MNDO", "AM1", "PM3"):
        return None
    t = table(method)
    n = len(Z)
    ng = 0 if method == "MNDO" else (4 if method == "AM1" else 2)
    E = 0.0
    for i in range(n):
        for j in range(i + 1, n):
            zi, zj = (Z[i], Z[j]) if Z[i] >= Z[j] else (Z[j], Z[i])
            pi, pj = t[zi], t[zj]
            R = float(np.linalg.norm(np.asarray(X[i]) - np.asarray(X[j])))
            rb = R / A0
            rho = 0.5 * EV / pi["g_ss"] + 0.5 * EV / pj["g_ss"]
            gam = EV / math.sqrt(rb * rb + rho * rho)
            qq = VALENCE[zi] * VALENCE[zj]
            ei = math.exp(-pi["alpha"] * R)
            ej = math.exp(-pj["alpha"] * R)
            if zi in (7, 8) and zj == 1:
                ei *= R
            e = qq * gam * (1.0 + ei + ej)
            if ng:
                s = 0.0
                for p in (pi, pj):
                    for k in range(1, ng + 1):
                        K, L, M = p.get("Gaussian%d_K" % k, 0.0), p.get("Gaussian%d_L" % k, 0.0), p.get("Gaussian%d_M" % k, 0.0)
                        if K != 0.0:
                            s += K * math.exp(-L * (R - M) ** 2)
                e += qq / R * s
            E += e
    return E


_GRIMME = {}


def edisp_am1_fs1(Z, X):
    """AM1-FS1 pair dispersion energy (Foster & Sohlberg, JCTC 6, 2153 (2010); Grimme 2006 C6 / R0 from the shipped
    CSV, own reader): E = - sum_{i<j} sqrt(C6_i C6_j) R^-6 f(R), f = 1/(1+exp(-1000 (R/(1.1058892 (R0_i+R0_j)) - 1))),
    C6 in J nm^6/mol -> eV with 1.036426966e-5 * 1e6."""
    if not _GRIMME:
        fn = os.path.join(env.REPO, "seqm", "params", "grimme_2006_b97-d.csv")
        with open(fn, encoding="utf-8-sig") as f:
            f.readline()
            for line in f:
                c = line.strip().replace(" ", "").split(",")
                try:
                    _GRIMME[int(c[0])] = (float(c[2]), float(c[3]))
                except (ValueError, IndexError):
                    continue
    E = 0.0
    n = len(Z)
    for i in range(n):
        for j in range(i + 1, n):
            c6 = math.sqrt(_GRIMME[Z[i]][0] * _GRIMME[Z[j]][0])
            rv = _GRIMME[Z[i]][1] + _GRIMME[Z[j]][1]
            R = float(np.linalg.norm(np.asarray(X[i]) - np.asarray(X[j])))
            a = 1000.0 * (R / (1.1058892 * rv) - 1.0)
            f = 1.0 if a > 700 else (0.0 if a < -700 else 1.0 / (1.0 + math.exp(-a)))
            E -= c6 * R ** -6 * f
    return E * 1.036426966e-5 * 1e6


def occupations(Z, charge, mult, uhf):
    nel = sum(VALENCE[z] for z in Z) - int(round(charge))
    if not uhf:
        return nel // 2, None
    na = (nel + int(round(mult)) - 1) // 2
    return na, nel - na


def _orbital_index(Zrow, nbf=4):
    idx = []
    for a, z in enumerate(Zrow):
        if z > 1:
            idx += [nbf * a + k for k in range(4)]
        elif z == 1:
            idx.append(nbf * a)
    return idx


def rebuild_fock(mol, P):
    """Fock matrix/matrices from a density with the repository's own integral and Fock builders."""
    import torch
    from seqm.seqm_functions.fock import fock
    from seqm.seqm_functions.fock_u_batch import fock_u_batch
    from seqm.seqm_functions.hcore import hcore
    with torch.no_grad():
        M, w = hcore(mol)[:2]
        p = mol.parameters
        f = fock_u_batch if P.dim() == 4 else fock
        W = torch.tensor([0])
        F = f(mol.nmol, mol.molsize, P, M, mol.maskd, mol.mask, mol.idxi, mol.idxj, w, W, p["g_ss"], p["g_pp"], p["g_sp"],
              p["g_p2"], p["h_sp"], mol.method, p["s_orb_exp_tail"], p["p_orb_exp_tail"], p["d_orb_exp_tail"], mol.Z,
              p["F0SD"], p["G2SD"])
    return F.detach().cpu().numpy()


def unit_factor():
    """(e*Angstrom -> reported dipole unit) as the package defines it; cross-checked loosely against CODATA."""
    from seqm.seqm_functions import constants as c
    return float(c.to_debye * c.debye_to_AU)


def bundle(mol, es, sett, charges, mults, sp2_tol=None, do_fock=True):
    """-> {"violations": [...], "margins": {name: observed/bound}, "monitors": {...}}; never raises on a
    property failure (only on a harness problem)."""
    import torch
    method = sett["method"]
    uhf = bool(sett.get("UHF", False))
    viol, margins = [], {}
    mon = {"bundle_calls": 1, "rows": 0, "rows_uhf": 0, "rows_ion": 0, "rows_excited": 0, "rows_not_converged": 0,
           "enuc_rows": 0, "fock_rebuilds": 0, "emo_compared": 0, "gap_compared": 0, "charges_compared": 0,
           "dipole_compared": 0, "hf_compared": 0, "etot_compared": 0}

    def upd(name, val, tol):
        r = float(val) / tol
        if not (r <= margins.get(name, -1.0)):
            margins[name] = r
        return not (r <= 1.0)

    def npy(t):
        return None if t is None else (t.detach().cpu().numpy() if torch.is_tensor(t) else np.asarray(t))

    species = npy(mol.species)
    coords = npy(mol.coordinates)
    nmol, molsize = species.shape
    Etot, Eelec, Enuc, Hf, Eiso = (npy(getattr(mol, k)) for k in ("Etot", "Eelec", "Enuc", "Hf", "Eiso"))
    e_mo, gap, q, dm, dip = npy(mol.e_mo), npy(mol.e_gap), npy(mol.q), npy(mol.dm), npy(getattr(mol, "dipole", None))
    nc = npy(getattr(es, "notconverged", None))
    nc = np.zeros(nmol, bool) if nc is None else np.asarray(nc, bool).reshape(-1)
    active = getattr(mol, "active_state", 0)
    active = np.asarray(npy(active) if torch.is_tensor(active) else active).reshape(-1)
    if active.size == 1:
        active = np.repeat(active, nmol)
    cis = npy(getattr(mol, "cis_energies", None))
    sp2_allow = 10.0 * min(SP2_MAX, max(SP2_MIN, float(sp2_tol))) if sp2_tol else 0.0
    Hf_flag = sett.get("Hf_flag", True)
    try:
        factor = unit_factor()
    except Exception:
        factor = None
    if factor is not None and upd("unit_factor_vs_codata", abs(factor / E_ANG_TO_AU_CODATA - 1.0), 1e-3):
        viol.append({"clause": "dipole-unit-constant", "mech": None,
                     "detail": {"factor": factor, "codata_e_angstrom_to_au": E_ANG_TO_AU_CODATA}})
    CHG = None
    if do_fock and method != "PM6" and sett.get("eig", True):
        CHG = npy(getattr(es, "charge", None))
        if CHG is not None and (CHG.ndim != 3 or CHG.shape[0] != nmol or CHG.shape[2] != molsize):
            CHG = None
    F = None
    MO = None
    if do_fock and method != "PM6" and torch.is_tensor(getattr(mol, "molecular_orbitals", None)):
        MO = mol.molecular_orbitals.detach().cpu().numpy()
    if do_fock and method != "PM6":
        F = rebuild_fock(mol, mol.dm)
        mon["fock_rebuilds"] += 1
    for b in range(nmol):
        Zr = [int(z) for z in species[b]]
        real = [z for z in Zr if z > 0]
        n = len(real)
        X = coords[b]
        mon["rows"] += 1
        if nc[b]:
            mon["rows_not_converged"] += 1
        ch, mu = float(charges[b]), float(mults[b])
        mon["rows_uhf"] += int(uhf)
        mon["rows_ion"] += int(ch != 0)
        wit = {"row": b, "species": real, "coords": X[:n].tolist(), "charge": ch, "mult": mu, "method": method}
        # ---- energies ----------------------------------------------------------------------
        exc = 0.0
        if active[b] == 0 and (active > 0).any():
            mon["rows_ground_in_mixed_active_batch"] = mon.get("rows_ground_in_mixed_active_batch", 0) + 1
        if active[b] > 0 and cis is not None:
            exc = float(cis[b][int(active[b]) - 1])
            mon["rows_excited"] += 1
        cis_tol = (sett.get("excited_states") or {}).get("tolerance", 0.0) if active[b] > 0 else 0.0
        mon["etot_compared"] += 1
        edisp = 0.0
        if sett.get("dispersion", False) and method == "AM1":
            edisp = edisp_am1_fs1(real, X[:n])
            mon["rows_dispersion"] = mon.get("rows_dispersion", 0) + 1
            if abs(edisp) > 1e-6:
                mon["rows_dispersion_nonzero"] = mon.get("rows_dispersion_nonzero", 0) + 1
            exc += edisp
        # the excitation energy enters Etot either as the Davidson Ritz value or as the Rayleigh quotient of the returned
        # amplitude; each lies within the residual tolerance of the eigenvalue, so the two may differ by 2 * tolerance
        # ... and the Rayleigh-quotient route (calc_cis_energy, used when the force comes from reverse-mode
        # differentiation) evaluates the excitation energy from F and P instead of orbital-energy differences: the two
        # agree only up to the occupied-virtual Fock block left by the SCF stopping rule, first order in
        # max|dP| <= 15 eps times a two-electron scale of 20 eV (K = 300 eV, same constant as C04's charge bound)
        scf_allow = 0.0
        if active[b] > 0:
            cv = list(sett.get("scf_converger", [2]))
            amp_e = 1.0 / (1.0 - cv[1]) if (cv[0] == 0 and len(cv) > 1 and 0 < cv[1] < 1) else 1.0
            scf_allow = 300.0 * float(sett.get("scf_eps", 0.0)) * amp_e
        if upd("etot_assembly", abs(Etot[b] - (Eelec[b] + Enuc[b] + exc)), TOL_ETOT + 2.0 * cis_tol + scf_allow):
            viol.append({"clause": "etot-assembly", "mech": None,
                         "detail": dict(wit, Etot=float(Etot[b]), Eelec=float(Eelec[b]), Enuc=float(Enuc[b]),
                                        excitation_plus_dispersion=exc, dispersion=edisp)})
        en = enuc_pairs(method, real, X[:n])
        if en is not None:
            mon["enuc_rows"] += 1
            if upd("enuc_pairs", abs(Enuc[b] - en), TOL_ENUC):
                viol.append({"clause": "enuc-pair-sum", "mech": None, "detail": dict(wit, Enuc=float(Enuc[b]), independent=en)})
        eiso = sum(eisol(method, z) for z in real)
        if upd("eiso_sum", abs(Eiso[b] - eiso), TOL_EISO):
            viol.append({"clause": "eiso-sum", "mech": None, "detail": dict(wit, Eiso=float(Eiso[b]), independent=eiso)})
        heat = sum(EHEAT_KCAL[z] for z in real) / EV_KCAL if Hf_flag else 0.0
        mon["hf_compared"] += 1
        if upd("hf_assembly", abs(Hf[b] - (Etot[b] - eiso + heat)), TOL_HF):
            viol.append({"clause": "hf-assembly", "mech": None,
                         "detail": dict(wit, Hf=float(Hf[b]), Etot=float(Etot[b]), eiso_sum=eiso, eheat_sum=heat)})
        # ---- orbital energies, gap ------------------------------------------------------------
        na, nb = occupations(real, ch, mu, uhf)
        idx = _orbital_index(Zr)
        norb = len(idx)
        spins = [(0, na), (1, nb)] if uhf else [(None, na)]
        for s, nocc in spins:
            e = e_mo[b] if s is None else e_mo[b][s]
            g_rep = (gap[b] if s is None else (gap[b][s] if np.ndim(gap) == 2 else None)) if gap is not None and np.size(gap) else None
            ev = e[:norb]
            lab = "" if s is None else ("/alpha" if s == 0 else "/beta")
            w = None
            if F is not None:      # e_mo = eig(F[returned dm]) is an algebraic identity, converged or not
                Fb = F[b] if s is None else F[b][s]
                sub = Fb[np.ix_(idx, idx)]
                w = np.linalg.eigvalsh(0.5 * (sub + sub.T))
            if not np.all(np.diff(ev) >= -TOL_ASC):       # NaN-safe: a non-finite level violates
                viol.append({"clause": "emo-not-ascending" + lab, "mech": None,
                             "detail": dict(wit, e_mo=ev.tolist(), nocc=nocc, eig_F=None if w is None else w.tolist(),
                                            gap=None if g_rep is None else float(g_rep))})
            if w is not None and MO is not None:
                # PAIRING: the reported energy e_k must belong to the reported orbital c_k (packed basis = the real
                # orbitals in atom order), whatever order the package publishes them in: F[dm] c_k = e_k c_k
                Cb = MO[b] if s is None else MO[b][s]
                if Cb.shape[0] >= norb and Cb.shape[1] >= norb:
                    c = Cb[:norb, :norb]
                    resid = np.abs(sub @ c - c * ev[None, :]).max(axis=0)
                    nrm = np.abs(np.linalg.norm(c, axis=0) - 1.0)
                    scale = max(1.0, float(np.abs(sub).max()))
                    mon["orbital_pairs_checked"] = mon.get("orbital_pairs_checked", 0) + norb
                    val = max(float(np.max(resid)) / scale, float(np.max(nrm)) * 0.1) if np.all(np.isfinite(resid)) else float("nan")
                    if upd("emo_orbital_pairing", val, TOL_PAIRING):
                        k = int(np.nanargmax(resid)) if np.any(np.isfinite(resid)) else 0
                        viol.append({"clause": "emo-orbital-pairing" + lab, "mech": None,
                                     "detail": dict(wit, orbital=k, residual=float(resid[k]), tol=TOL_PAIRING * scale,
                                                    e_mo=ev.tolist(), eig_F=w.tolist(), nocc=nocc)})
            if w is not None:
                mon["emo_compared"] += 1
                if upd("emo_vs_fock_eigs", np.abs(np.sort(ev) - w).max(), TOL_EMO):
                    viol.append({"clause": "emo-vs-fock-eigenvalues" + lab, "mech": None,
                                 "detail": dict(wit, max_abs=float(np.abs(np.sort(ev) - w).max()), e_mo=ev.tolist(),
                                                eig_F=w.tolist())})
            if g_rep is not None and 0 < nocc < norb:
                mon["gap_compared"] += 1
                if upd("gap_definition", abs(float(g_rep) - (ev[nocc] - ev[nocc - 1])), TOL_GAP):
                    viol.append({"clause": "gap-definition" + lab, "mech": None,
                                 "detail": dict(wit, gap=float(g_rep), lumo=float(ev[nocc]), homo=float(ev[nocc - 1]), nocc=nocc,
                                                e_mo=ev.tolist(), eig_F=None if w is None else w.tolist())})
        # ---- charges ---------------------------------------------------------------------------
        Pb = dm[b] if dm.ndim == 3 else dm[b][0] + dm[b][1]
        pop = np.diag(Pb).reshape(molsize, 4).sum(axis=1)
        qind = np.array([VALENCE[z] for z in Zr], float) - pop
        mon["charges_compared"] += 1
        if upd("charges_from_dm", np.abs(q[b] - qind).max(), TOL_Q):
            viol.append({"clause": "charges-vs-density", "mech": None,
                         "detail": dict(wit, q=q[b].tolist(), independent=qind.tolist())})
        # fixed mixing starts from neutral-atom populations: tr P_k - N_el = alpha^k * charge, and the stopping rule
        # max|dP| <= 15 eps bounds it by 15 eps n_orb alpha/(1-alpha); one stopping-rule quantum for the other solvers
        conv = list(sett.get("scf_converger", [2]))
        amp = conv[1] / (1.0 - conv[1]) if (conv[0] == 0 and len(conv) > 1 and 0 < conv[1] < 1) else 1.0
        qs_tol = TOL_QSUM + sp2_allow + 15.0 * float(sett.get("scf_eps", 0.0)) * max(norb, 1) * max(amp, 1.0)
        if not nc[b] and upd("charge_sum", abs(q[b].sum() - ch), qs_tol):
            viol.append({"clause": "charge-sum", "mech": None, "detail": dict(wit, q_sum=float(q[b].sum()))})
        # ---- per-orbital atomic populations (Electronic_Structure.charge) -----------------------------
        if CHG is not None:
            cb = CHG[b]
            natom = n
            finite_T = ("T_el" in conv) or conv[0] == 3
            mon["orbital_population_rows"] = mon.get("orbital_population_rows", 0) + norb
            # (a) every real MO row sums to 1 over the real atoms; padding rows / padding atoms exactly 0
            rowsum = cb[:norb, :natom].sum(axis=1) if norb else np.zeros(0)
            pad_ok = bool(np.all(cb[norb:, :] == 0.0) and np.all(cb[:, natom:] == 0.0))
            bad_a = upd("orbital_population_row_sum", np.abs(rowsum - 1.0).max() if norb else 0.0, 1e-9)
            if bad_a or not pad_ok:
                viol.append({"clause": "orbital-populations-consistent-with-density/row-sum", "mech": None,
                             "detail": dict(wit, row_sums=rowsum.tolist(), padding_exactly_zero=pad_ok)})
            # (b) occupied-orbital populations reproduce the atomic populations of the density matrix
            occ_ok = (not uhf) or (na == nb)
            if finite_T or not occ_ok or nc[b]:
                mon["orbital_population_rows_ineligible_for_density_clause"] = \
                    mon.get("orbital_population_rows_ineligible_for_density_clause", 0) + 1
            else:
                pop_mo = 2.0 * cb[:na, :natom].sum(axis=0)
                pop_dm = pop[:natom]
                # the orbitals are those of F[P], P the returned iterate: they reproduce P up to the stopping rule
                # max|dP| <= 15 eps (x mixing amplification), 4 diagonal elements per atom -> K = 300 as in C04
                cv_amp = 1.0 / (1.0 - conv[1]) if (conv[0] == 0 and len(conv) > 1 and 0 < conv[1] < 1) else 1.0
                ptol = 1e-8 + 300.0 * float(sett.get("scf_eps", 0.0)) * cv_amp + 10.0 * sp2_allow
                mon["orbital_population_atoms_compared"] = mon.get("orbital_population_atoms_compared", 0) + natom
                if upd("orbital_population_vs_density", np.abs(pop_mo - pop_dm).max(), ptol):
                    viol.append({"clause": "orbital-populations-consistent-with-density", "mech": None,
                                 "detail": dict(wit, from_orbital_populations=pop_mo.tolist(),
                                                from_density_matrix=pop_dm.tolist(), tol=ptol, nocc=na)})
        # ---- dipole ----------------------------------------------------------------------------
        if dip is not None and factor is not None:
            mu_ind = np.zeros(3)
            for a, z in enumerate(Zr):
                if z == 0:
                    continue
                mu_ind += qind[a] * X[a]
                if z > 1:
                    d1 = d1_bohr(method, z) * A0
                    mu_ind -= 2.0 * d1 * Pb[4 * a, 4 * a + 1:4 * a + 4]
            mu_ind *= factor
            mon["dipole_compared"] += 1
            scale = max(1.0, float(np.abs(X[:n]).max()) if n else 1.0)
            if upd("dipole_formula", np.abs(dip[b] - mu_ind).max(), TOL_DIP * scale):
                viol.append({"clause": "dipole-formula", "mech": None,
                             "detail": dict(wit, dipole=dip[b].tolist(), independent=mu_ind.tolist())})
    return {"violations": viol, "margins": margins, "monitors": mon}
