"""Locations, seeds, thread pinning, scratch-dir lifecycle."""
import hashlib
import os
import shutil
import tempfile

VERIF = os.path.dirname(os.path.dirname(os.path.abspath(__file__)))
REPO = os.environ.get("VERIF_REPO", "/repo")
PY = os.environ.get("VERIF_PY", "/venv/bin/python")
NCPU = int(os.environ.get("VERIF_NCPU", str(os.cpu_count() or 4)))


def seed():
    try:
        return int(os.environ.get("VERIF_SEED", "0"))
    except ValueError:
        return 0


def subseed(*parts):
    """Deterministic 63-bit integer from (VERIF_SEED, *parts)."""
    h = hashlib.sha256(repr((seed(),) + tuple(parts)).encode()).digest()
    return int.from_bytes(h[:8], "big") >> 1


def child_env(extra=None):
    e = dict(os.environ)
    e["PYTHONPATH"] = REPO + os.pathsep + VERIF
    e["PYTHONDONTWRITEBYTECODE"] = "1"
    e["PYTHONHASHSEED"] = "0"
    for k in ("OMP_NUM_THREADS", "MKL_NUM_THREADS", "OPENBLAS_NUM_THREADS", "NUMEXPR_NUM_THREADS"):
        e[k] = "1"
    e.pop("PYSEQM_VERIF", None)
    if extra:
        e.update(extra)
    return e


class Scratch:
    """Per-run scratch directory outside /repo and /verif, removed on exit."""

    def __init__(self, tag="verif"):
        base = os.environ.get("VERIF_SCRATCH_BASE") or tempfile.gettempdir()
        self.path = tempfile.mkdtemp(prefix=f"pyseqm-{tag}-", dir=base)

    def __enter__(self):
        return self.path

    def __exit__(self, *a):
        shutil.rmtree(self.path, ignore_errors=True)
