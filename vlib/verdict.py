"""Three-valued verdicts, evidence files, replay files, known-finding matching."""
import hashlib
import json
import os
import sys
import time

from . import env

EVID_DIR = os.environ.get("VERIF_EVIDENCE_DIR") or os.path.join(env.VERIF, "evidence")  # redirected by self-tests
REPLAY_DIR = os.environ.get("VERIF_REPLAY_DIR") or os.path.join(env.VERIF, "replays")
KNOWN_FILE = os.path.join(env.VERIF, "known_findings.json")


def case_id(case):
    c = {k: v for k, v in case.items() if not k.startswith("_")}
    return hashlib.sha1(json.dumps(c, sort_keys=True, default=repr).encode()).hexdigest()[:16]


def load_known(prop):
    try:
        kf = json.load(open(KNOWN_FILE))
    except FileNotFoundError:
        return []
    return [e for e in kf.get("open", []) if e.get("property") == prop]


def _shrink(o, depth=0):
    """Make a witness small enough for an evidence sample."""
    if isinstance(o, float):
        return float("%.6g" % o)
    if isinstance(o, dict):
        return {k: _shrink(v, depth + 1) for k, v in list(o.items())[:40]}
    if isinstance(o, (list, tuple)):
        if len(o) > 12 and depth > 2:
            return [_shrink(x, depth + 1) for x in o[:6]] + ["...(%d items)" % len(o)]
        return [_shrink(x, depth + 1) for x in o]
    return o


class Report:
    def __init__(self, prop, tier, level="exploration", rule="", assumptions=(), required_monitors=(),
                 min_nontrivial=2, max_inconclusive_frac=0.10):
        self.prop = prop
        self.tier = tier
        self.level = level
        self.rule = rule
        self.assumptions = list(assumptions)
        self.required_monitors = list(required_monitors)
        self.min_nontrivial = min_nontrivial
        self.max_inconclusive_frac = max_inconclusive_frac
        self.t0 = time.time()
        self.evaluations = 0
        self.nontrivial_ids = set()
        self.ineligible = {}
        self.inconclusive = []
        self.harness_errors = []
        self.skipped = 0
        self.violations = []  # (case, violation dict)
        self.margins = {}
        self.monitors = {}
        self.cells = {}
        self.samples = []
        self.extra = {}
        self.notes = []

    # ------------------------------------------------------------------
    def add(self, case, res):
        """Fold one (case, result) pair into the report."""
        self.evaluations += 1
        cid = case_id(case)
        if res is None:
            res = {"harness_error": "no result"}
        if res.get("skipped"):
            self.skipped += 1
            self.evaluations -= 1
            return
        if res.get("harness_error"):
            self.harness_errors.append({"case": cid, "error": res["harness_error"][-1500:]})
            return
        if res.get("inconclusive"):
            self.inconclusive.append({"case": cid, "reason": res["inconclusive"]})
            # a case may still carry monitors seen before the watchdog fired
        for k, v in (res.get("monitors") or {}).items():
            self.monitors[k] = self.monitors.get(k, 0) + int(v)
        for k, v in (res.get("margins") or {}).items():
            if v is None:
                continue
            v = float(v)
            if v != v or v > 1e300:  # NaN / inf: keep evidence strict-JSON and make it the worst margin
                v = 1e300
            if k not in self.margins or v > self.margins[k]["worst"]:
                self.margins[k] = {"worst": float(v), "case": cid,
                                   "n": self.margins.get(k, {}).get("n", 0) + 1}
            else:
                self.margins[k]["n"] += 1
        for c in res.get("cells") or []:
            self.cells[c] = self.cells.get(c, 0) + 1
        if res.get("ineligible"):
            r = str(res["ineligible"])
            self.ineligible[r] = self.ineligible.get(r, 0) + 1
        elif res.get("nontrivial", True) and not res.get("inconclusive"):
            self.nontrivial_ids.add(cid)
        for v in res.get("violations") or []:
            self.violations.append((case, v, res.get("obs")))
        if len(self.samples) < 4 and not res.get("inconclusive") and res.get("nontrivial", True) \
                and not res.get("ineligible"):
            self.samples.append({"case": _shrink(case), "observed": _shrink(res.get("obs"))})

    # ------------------------------------------------------------------
    def finish(self, seed, exhaustive=None, extra_coverage=None):
        known = load_known(self.prop)
        known_keys = {e["key"]: e for e in known}
        printed_known = {}
        new_violations = []
        for case, v, obs in self.violations:
            mech = v.get("mech")
            if mech and mech in known_keys:
                printed_known.setdefault(mech, 0)
                printed_known[mech] += 1
            else:
                new_violations.append((case, v, obs))
        lines = []
        for k, n in printed_known.items():
            lines.append("KNOWN-FINDING: property=%s key=%s %s (observed on %d case(s) this run)" % (
                self.prop, k, known_keys[k].get("what_fails", ""), n))
        # replay files for new violations (at most 20 written)
        os.makedirs(os.path.join(REPLAY_DIR, self.prop), exist_ok=True)
        seen_clause = {}
        for case, v, obs in new_violations:
            key = (v.get("clause"), v.get("mech"))
            seen_clause[key] = seen_clause.get(key, 0) + 1
            if seen_clause[key] > 3:
                continue
            cid = case_id(case)
            path = os.path.join(REPLAY_DIR, self.prop, "%s-%s.json" % (cid, str(v.get("clause", "x"))[:40].replace("/", "_").replace(" ", "_")))
            with open(path, "w") as f:
                json.dump({"property": self.prop, "case": case, "violation": v, "observed": obs,
                           "seed": seed, "tier": self.tier}, f, indent=1, default=repr)
            lines.append("VIOLATION property=%s replay=%s" % (self.prop, path))
            lines.append("  clause=%s mech=%s detail=%s" % (v.get("clause"), v.get("mech"),
                                                          json.dumps(_shrink(v.get("detail")), default=repr)[:600]))
        # inconclusive conditions
        inconc_reasons = []
        if len(self.nontrivial_ids) < self.min_nontrivial:
            inconc_reasons.append("only %d distinct non-trivial cases (need %d)" % (len(self.nontrivial_ids), self.min_nontrivial))
        for m in self.required_monitors:
            if self.monitors.get(m, 0) == 0:
                inconc_reasons.append("deciding monitor %r observed no events" % m)
        nbad = len(self.inconclusive) + len(self.harness_errors)
        if self.evaluations and nbad / max(1, self.evaluations) > self.max_inconclusive_frac:
            inconc_reasons.append("%d of %d cases inconclusive/harness-error" % (nbad, self.evaluations))
        coverage = {
            "evaluations": self.evaluations,
            "distinct_nontrivial": len(self.nontrivial_ids),
            "rule": self.rule,
            "samples": self.samples or [{"note": "no eligible case completed"}],
            "monitors": self.monitors,
            "cells": {"distinct": len(self.cells), "hits": dict(sorted(self.cells.items())[:400])},
            "worst_margin": self.margins,
            "ineligible": self.ineligible,
            "inconclusive_cases": self.inconclusive[:20],
            "inconclusive_count": len(self.inconclusive),
            "harness_errors": self.harness_errors[:10],
            "harness_error_count": len(self.harness_errors),
            "skipped_by_budget": self.skipped,
            "known_findings_matched": printed_known,
            "known_findings_listed_not_observed": [k for k in known_keys if k not in printed_known],
            "new_violations": [{"clause": v.get("clause"), "mech": v.get("mech"), "case": case_id(c),
                                "detail": _shrink(v.get("detail"))} for c, v, _ in new_violations[:30]],
            "verdict": "violated" if new_violations else ("inconclusive" if inconc_reasons else "held on what was observed"),
            "inconclusive_reasons": inconc_reasons,
            "notes": self.notes,
        }
        if exhaustive is not None:
            coverage["exhaustive"] = bool(exhaustive)
        coverage.update(self.extra)
        if extra_coverage:
            coverage.update(extra_coverage)
        ev = {
            "property_id": self.prop,
            "tier": self.tier,
            "seed": int(seed),
            "level": self.level,
            "coverage": coverage,
            "assumptions": self.assumptions,
            "wall_s": round(time.time() - self.t0, 2),
            "violations": len(new_violations),
        }
        os.makedirs(EVID_DIR, exist_ok=True)
        tmp = os.path.join(EVID_DIR, self.prop + ".json.tmp")
        with open(tmp, "w") as f:
            json.dump(ev, f, indent=1, default=repr)
        os.replace(tmp, os.path.join(EVID_DIR, self.prop + ".json"))
        for ln in lines:
            print(ln)
        print("SUMMARY property=%s tier=%s seed=%d evaluations=%d distinct_nontrivial=%d violations=%d "
              "known=%d inconclusive_cases=%d harness_errors=%d wall=%.0fs" % (
                  self.prop, self.tier, seed, self.evaluations, len(self.nontrivial_ids), len(new_violations),
                  sum(printed_known.values()), len(self.inconclusive), len(self.harness_errors), ev["wall_s"]))
        if self.margins:
            print("  worst margins (observed/bound): " + ", ".join(
                "%s=%.3g" % (k, v["worst"]) for k, v in sorted(self.margins.items())))
        if self.monitors:
            print("  monitors: " + ", ".join("%s=%d" % kv for kv in sorted(self.monitors.items())))
        if new_violations:
            return 1
        if inconc_reasons:
            print("INCONCLUSIVE property=%s reason=%s" % (self.prop, "; ".join(inconc_reasons)))
            for h in self.harness_errors[:3]:
                print("  harness error: " + h["error"][-800:], file=sys.stderr)
            return 2
        return 0
