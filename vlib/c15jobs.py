"""C15 helper: pool of contrasting jobs and a sequence executor that runs in a FRESH child process.

    echo '<spec json>' | /venv/bin/python -m vlib.c15jobs            (PYTHONPATH=$VERIF_REPO:/verif)

spec = {"scratch": dir, "steps": [step, ...]}
step = {"job": name, "reuse": "none"|"dict"|"driver"|"engine"}   run one job ("engine": same MD/optimiser object)
     | {"set_threads": n}                                         torch.set_num_threads(n)
     | {"interleave": [name, ...], "order": "joint"|"fifo"|"lifo"}  forwards of several differentiable jobs, then
                                                                   one joint backward (or separate backwards in the
                                                                   given order)
     | {"consume_rng": n}                                         draw n random numbers (history noise)
Output (JSON on the original stdout): {"steps": [result, ...]} with
result = {"job", "status": "ok"|"raised", "exc", "arrays": {key: nested list}, "sha": sha1 of the raw bytes,
          "state_changed": [...], "rejected_new_elements": bool, "wall"}.
Nothing here judges anything; the oracle lives in props/c15_history_independence.py."""
import copy
import hashlib
import json
import os
import sys
import time

import numpy as np

# ---------------------------------------------------------------------------------------------------
# job pool (pure data; importable without torch)
# ---------------------------------------------------------------------------------------------------
def _s(method, eps, conv, **kw):
    d = {"method": method, "scf_eps": eps, "scf_converger": list(conv), "sp2": [False]}
    d.update(kw)
    return d


_A = _s("AM1", 1e-8, [2])
JOBS = {
    # --- single points through Electronic_Structure; jobs with the same "sig" share one settings template
    "am1_h2o": {"kind": "sp", "mol": "H2O", "gs": 11, "sett": _A, "sig": "A"},
    "am1_h2o_b": {"kind": "sp", "mol": "H2O", "gs": 12, "sett": _A, "sig": "A"},
    "am1_ch4": {"kind": "sp", "mol": "CH4", "gs": 13, "sett": _A, "sig": "A"},
    "am1_hcl": {"kind": "sp", "mol": "HCl", "gs": 14, "sett": _A, "sig": "A"},
    "am1_nh3": {"kind": "sp", "mol": "NH3", "gs": 15, "sett": _A, "sig": "A"},
    "pm3_h2o": {"kind": "sp", "mol": "H2O", "gs": 11, "sett": _s("PM3", 1e-8, [2]), "sig": "P"},
    "pm3_ch3oh_sp2": {"kind": "sp", "mol": "CH3OH", "gs": 16, "sett": _s("PM3", 1e-6, [1], sp2=[True, 1e-7]), "sig": "S"},
    "mndo_nh2_uhf": {"kind": "sp", "mol": "NH2.", "gs": 17, "sett": _s("MNDO", 1e-9, [1], UHF=True), "sig": "U"},
    "mndo_o2_trip": {"kind": "sp", "mol": "O2t", "gs": 18, "sett": _s("MNDO", 1e-7, [0, 0.2], UHF=True), "sig": "U2"},
    "am1_ch2o_cis": {"kind": "sp", "mol": "CH2O", "gs": 19,
                     "sett": _s("AM1", 1e-7, [2], excited_states={"n_states": 3, "tolerance": 1e-6, "method": "cis"},
                                active_state=1), "sig": "X"},
    "pm3_c2h4_rpa": {"kind": "sp", "mol": "C2H4", "gs": 20,
                     "sett": _s("PM3", 1e-8, [2], excited_states={"n_states": 2, "tolerance": 1e-7, "method": "rpa"}),
                     "sig": "R"},
    "pm6sp_h2s": {"kind": "sp", "mol": "H2S", "gs": 21, "sett": _s("PM6_SP", 1e-10, [2]), "sig": "6"},
    "pm6_hcl": {"kind": "sp", "mol": "HCl", "gs": 22, "sett": _s("PM6", 1e-8, [1]), "sig": "D"},
    "am1_batch": {"kind": "sp", "mol": ["H2O", "NH3", "HCN"], "gs": 23, "sett": _s("AM1", 1e-7, [2]), "sig": "B"},
    "mndo_oh_anion": {"kind": "sp", "mol": "OH-", "gs": 24, "sett": _s("MNDO", 1e-5, [0, 0.3]), "sig": "N"},
    "am1_nh3_loose": {"kind": "sp", "mol": "NH3", "gs": 25, "sett": _s("AM1", 1e-3, [1]), "sig": "L"},
    "pm3_hcn_anal": {"kind": "sp", "mol": "HCN", "gs": 26, "sett": _s("PM3", 1e-9, [2], analytical_gradient=[True]), "sig": "G"},
    "mndo_lih_num": {"kind": "sp", "mol": "LiH", "gs": 27,
                     "sett": _s("MNDO", 1e-9, [2], analytical_gradient=[True, "numerical"]), "sig": "H"},
    "am1_c6h6": {"kind": "sp", "mol": "C6H6", "gs": 28, "sett": _s("AM1", 1e-8, [2]), "sig": "Z"},
    "am1_restart": {"kind": "sp", "mol": "CH3F", "gs": 29, "sett": _s("AM1", 1e-6, [2]), "sig": "W", "restart": True},
    # --- differentiable jobs (Energy + backward); L = gap + 0.01 Hf (sb >= 1) or Hf (sb = 0)
    "g_am1_h2o_tight": {"kind": "grad", "mol": "H2O", "gs": 31, "sett": _s("AM1", 1e-11, [2], scf_backward=1), "sig": "g1"},
    "g_am1_nh3_loose": {"kind": "grad", "mol": "NH3", "gs": 32, "sett": _s("AM1", 1e-3, [1], scf_backward=1), "sig": "g2"},
    "g_pm3_hcn_param": {"kind": "grad", "mol": "HCN", "gs": 33,
                        "sett": _s("PM3", 1e-9, [2], scf_backward=1, learned=["U_ss", "g_ss"]), "sig": "g3",
                        "learned": ["U_ss", "g_ss"]},
    "g_mndo_nh3_sb2": {"kind": "grad", "mol": "NH3", "gs": 34, "sett": _s("MNDO", 1e-8, [2], scf_backward=2), "sig": "g4"},
    "g_am1_ch2o_sb0": {"kind": "grad", "mol": "CH2O", "gs": 35, "sett": _s("AM1", 1e-8, [2], scf_backward=0), "sig": "g5"},
    "g_pm6sp_h2s_sb1": {"kind": "grad", "mol": "H2S", "gs": 36, "sett": _s("PM6_SP", 1e-6, [0, 0.3], scf_backward=1), "sig": "g6"},
    # --- short MD runs and one XL-BOMD evaluation
    "md_bomd_h2o": {"kind": "md", "engine": "basic", "mol": "H2O", "gs": 41, "sett": _s("AM1", 1e-8, [2]), "sig": "m1",
                    "steps": 2, "dt": 0.5, "Temp": 300.0, "seed": 7},
    "md_lang_nh3": {"kind": "md", "engine": "langevin", "mol": "NH3", "gs": 42, "sett": _s("PM3", 1e-7, [1]), "sig": "m2",
                    "steps": 2, "dt": 0.5, "Temp": 400.0, "seed": 11, "damp": 20.0},
    "md_xl_h2o": {"kind": "md", "engine": "xl", "mol": "H2O", "gs": 43, "sett": _s("AM1", 1e-7, [2]), "sig": "m3",
                  "steps": 3, "dt": 0.4, "Temp": 300.0, "seed": 5, "k": 5},
    "md_ksa_h2o": {"kind": "md", "engine": "ksa", "mol": "H2O", "gs": 46, "sett": _s("AM1", 1e-7, [2]), "sig": "m4",
                   "steps": 3, "dt": 0.4, "Temp": 300.0, "seed": 9, "k": 5},
    # second trajectories for the same engine objects (same template = same "sig", other geometry / seed)
    "md_bomd_h2o_b": {"kind": "md", "engine": "basic", "mol": "H2O", "gs": 47, "sett": _s("AM1", 1e-8, [2]), "sig": "m1",
                      "steps": 2, "dt": 0.5, "Temp": 300.0, "seed": 8},
    "md_lang_nh3_b": {"kind": "md", "engine": "langevin", "mol": "NH3", "gs": 48, "sett": _s("PM3", 1e-7, [1]), "sig": "m2",
                      "steps": 2, "dt": 0.5, "Temp": 400.0, "seed": 12, "damp": 20.0},
    "md_xl_h2o_b": {"kind": "md", "engine": "xl", "mol": "H2O", "gs": 49, "sett": _s("AM1", 1e-7, [2]), "sig": "m3",
                    "steps": 3, "dt": 0.4, "Temp": 300.0, "seed": 6, "k": 5},
    "md_ksa_h2o_b": {"kind": "md", "engine": "ksa", "mol": "H2O", "gs": 50, "sett": _s("AM1", 1e-7, [2]), "sig": "m4",
                     "steps": 3, "dt": 0.4, "Temp": 300.0, "seed": 10, "k": 5},
    "opt_sd_h2o_b": {"kind": "opt", "mol": "H2O", "gs": 55, "sett": _s("AM1", 1e-8, [2]), "sig": "o1", "steps": 3, "alpha": 2e-3},
    # run options that carry state on the engine object (velocity rescaling / energy-shift reference); "_b" = second
    # trajectory of the same engine template from another geometry and seed, i.e. with another initial total energy
    "md_shift_h2o": {"kind": "md", "engine": "basic", "mol": "H2O", "gs": 61, "sett": _s("AM1", 1e-8, [2]), "sig": "m5",
                     "steps": 4, "dt": 0.5, "Temp": 300.0, "seed": 21, "run_kw": {"control_energy_shift": True}},
    "md_shift_h2o_b": {"kind": "md", "engine": "basic", "mol": "H2O", "gs": 62, "sett": _s("AM1", 1e-8, [2]), "sig": "m5",
                       "steps": 4, "dt": 0.5, "Temp": 300.0, "seed": 22, "run_kw": {"control_energy_shift": True},
                       "sigma": 0.12},
    "md_scale_nh3": {"kind": "md", "engine": "basic", "mol": "NH3", "gs": 63, "sett": _s("PM3", 1e-8, [2]), "sig": "m6",
                     "steps": 4, "dt": 0.5, "Temp": 200.0, "seed": 23, "run_kw": {"scale_vel": [2, 350.0]}},
    "md_scale_nh3_b": {"kind": "md", "engine": "basic", "mol": "NH3", "gs": 64, "sett": _s("PM3", 1e-8, [2]), "sig": "m6",
                       "steps": 4, "dt": 0.5, "Temp": 200.0, "seed": 24, "run_kw": {"scale_vel": [2, 350.0]}, "sigma": 0.12},
    "md_xlshift_h2o": {"kind": "md", "engine": "xl", "mol": "H2O", "gs": 65, "sett": _s("AM1", 1e-7, [2]), "sig": "m7",
                       "steps": 4, "dt": 0.4, "Temp": 300.0, "seed": 25, "k": 5, "run_kw": {"control_energy_shift": True}},
    "md_xlshift_h2o_b": {"kind": "md", "engine": "xl", "mol": "H2O", "gs": 66, "sett": _s("AM1", 1e-7, [2]), "sig": "m7",
                         "steps": 4, "dt": 0.4, "Temp": 300.0, "seed": 26, "k": 5, "run_kw": {"control_energy_shift": True},
                         "sigma": 0.12},
    "md_lshift_nh3": {"kind": "md", "engine": "langevin", "mol": "NH3", "gs": 67, "sett": _s("PM3", 1e-7, [1]), "sig": "m8",
                      "steps": 3, "dt": 0.5, "Temp": 400.0, "seed": 27, "damp": 20.0, "run_kw": {"control_energy_shift": True}},
    "md_lshift_nh3_b": {"kind": "md", "engine": "langevin", "mol": "NH3", "gs": 68, "sett": _s("PM3", 1e-7, [1]), "sig": "m8",
                        "steps": 3, "dt": 0.5, "Temp": 400.0, "seed": 28, "damp": 20.0,
                        "run_kw": {"control_energy_shift": True}, "sigma": 0.12},
    # seeded STOCHASTIC engines started from user-supplied velocities (no Maxwell-Boltzmann draw): the noise must come
    # from the seed given to run(), not from whatever the process-global RNG was left at
    "md_lang_preset": {"kind": "md", "engine": "langevin", "mol": "H2O", "gs": 81, "sett": _s("AM1", 1e-8, [2]), "sig": "s1",
                       "steps": 3, "dt": 0.5, "Temp": 300.0, "seed": 31, "damp": 10.0, "preset_vel": 0.01},
    "md_xldamp_preset": {"kind": "md", "engine": "xl", "mol": "H2O", "gs": 82, "sett": _s("AM1", 1e-7, [2]), "sig": "s2",
                         "steps": 3, "dt": 0.4, "Temp": 300.0, "seed": 32, "k": 5, "damp": 10.0, "preset_vel": 0.01},
    # excited states with scf_eps looser than 0.1 x CIS tolerance: the constructor tightens scf_eps IN the caller's dict
    "am1_ch2o_cis_loose": {"kind": "sp", "mol": "CH2O", "gs": 83,
                           "sett": _s("AM1", 1e-5, [2], excited_states={"n_states": 3, "tolerance": 1e-6, "method": "cis"},
                                      active_state=1), "sig": "X2"},
    # systems with an atom pair beyond the 40 bohr (21.2 A) overlap cut-off: blocks that are never computed must still be
    # defined numbers whatever the heap contained
    "far_h2o_dimer": {"kind": "sp", "mol": ["H2O", [30.0, 1.0, 0.5]], "dimer": True, "gs": 91, "sett": _s("AM1", 1e-8, [2]),
                      "sig": "F1"},
    "far_ch2o_pm3": {"kind": "sp", "mol": ["CH2O", [2.0, 26.0, 3.0]], "dimer": True, "gs": 92, "sett": _s("PM3", 1e-8, [1]),
                     "sig": "F2"},
    "far_batch": {"kind": "sp", "mol": [["H2O", [28.0, 2.0, 1.0]], "NH3", ["HCN", [1.0, 2.0, 33.0]]], "dimer_batch": True,
                  "gs": 93, "sett": _s("AM1", 1e-7, [2]), "sig": "F3"},
    "md_far_h2o": {"kind": "md", "engine": "basic", "mol": ["H2O", [25.0, 3.0, 2.0]], "dimer": True, "gs": 94,
                   "sett": _s("AM1", 1e-8, [2]), "sig": "F4", "steps": 2, "dt": 0.5, "Temp": 300.0, "seed": 41},
    # partners for the interleaved-build histories (same molecule, other method)
    "md_bomd_ch2o": {"kind": "md", "engine": "basic", "mol": "CH2O", "gs": 95, "sett": _s("AM1", 1e-8, [2]), "sig": "I1",
                     "steps": 4, "dt": 0.5, "Temp": 300.0, "seed": 42},
    "md_lang_ch2o": {"kind": "md", "engine": "langevin", "mol": "CH2O", "gs": 95, "sett": _s("AM1", 1e-8, [2]), "sig": "I2",
                     "steps": 3, "dt": 0.5, "Temp": 300.0, "seed": 43, "damp": 20.0},
    "pm3_ch2o": {"kind": "sp", "mol": "CH2O", "gs": 95, "sett": _s("PM3", 1e-8, [2]), "sig": "I3"},
    # rarely used options that bring their own tables / module state
    # AM1 + dispersion: non-bonded dimers (separation > 3 A), same largest Z but different element sets
    "disp_h2o_dimer": {"kind": "sp", "mol": ["H2O", [3.1, 0.6, 0.4]], "dimer": True, "gs": 71,
                       "sett": _s("AM1", 1e-8, [2], dispersion=True), "sig": "d1"},
    "disp_ch2o_dimer": {"kind": "sp", "mol": ["CH2O", [3.5, 0.3, 0.2]], "dimer": True, "gs": 72,
                        "sett": _s("AM1", 1e-8, [2], dispersion=True), "sig": "d1"},
    "disp_hcn_dimer": {"kind": "sp", "mol": ["HCN", [0.4, 3.4, 0.3]], "dimer": True, "gs": 73,
                       "sett": _s("AM1", 1e-8, [2], dispersion=True), "sig": "d1"},
    "disp_nh3_dimer": {"kind": "sp", "mol": ["NH3", [3.3, 0.2, 0.5]], "dimer": True, "gs": 74,
                       "sett": _s("AM1", 1e-8, [2], dispersion=True), "sig": "d1"},
    "disp_batch": {"kind": "sp", "mol": [["H2O", [3.1, 0.5, 0.3]], ["HCN", [0.3, 3.4, 0.4]], ["CH2O", [3.5, 0.2, 0.3]]],
                   "dimer_batch": True, "gs": 75, "sett": _s("AM1", 1e-7, [2], dispersion=True), "sig": "d2"},
    "am1_dimer_cutoff": {"kind": "sp", "mol": ["H2O", [3.1, 0.6, 0.4]], "dimer": True, "gs": 76,
                         "sett": _s("AM1", 1e-8, [2], pair_outer_cutoff=2.6), "sig": "c1"},
    "am1_h2o_hfflag": {"kind": "sp", "mol": "H2O", "gs": 77, "sett": _s("AM1", 1e-8, [2], Hf_flag=False), "sig": "f1"},
    "am1_h2o_noeig": {"kind": "sp", "mol": "H2O", "gs": 78, "sett": _s("AM1", 1e-8, [2], eig=False), "sig": "e1"},
    "pm3_h2o_altparams": {"kind": "sp", "mol": "H2O", "gs": 11, "sett": _s("PM3", 1e-8, [2], parameter_file_dir="<ALT>"),
                          "sig": "p1", "altparams": {"Z": 8, "column": "U_ss", "delta": 0.5}},
    "am1_h2o_learned": {"kind": "sp", "mol": "H2O", "gs": 11, "sett": _s("AM1", 1e-8, [2], learned=["beta_s", "g_ss"]),
                        "sig": "l1", "learned": ["beta_s", "g_ss"], "learned_scale": 1.02},
    "xl_eval_ch2o": {"kind": "xl", "mol": "CH2O", "gs": 44, "sett": _s("AM1", 1e-9, [2]), "sig": "x1"},
    "opt_sd_h2o": {"kind": "opt", "mol": "H2O", "gs": 45, "sett": _s("AM1", 1e-8, [2]), "sig": "o1", "steps": 3, "alpha": 2e-3},
    # --- calls that must raise (C18 inputs) -- history noise and targets
    "r_odd_rhf": {"kind": "sp", "mol": "OH.", "gs": 51, "sett": _A, "sig": "A", "force_mult": 1, "expect": "raises"},
    "r_unsorted": {"kind": "sp", "mol": "H2O", "gs": 52, "sett": _A, "sig": "A", "unsorted": True, "expect": "raises"},
    "r_uhf_pulay": {"kind": "sp", "mol": "NH2.", "gs": 53, "sett": _s("MNDO", 1e-8, [2], UHF=True), "sig": "r3", "expect": "raises"},
    "r_bad_excited": {"kind": "sp", "mol": "H2O", "gs": 54, "sett": _s("AM1", 1e-8, [2], excited_states={"tolerance": 1e-6}),
                      "sig": "r4", "expect": "raises"},
}
GRAD_JOBS = [k for k, v in JOBS.items() if v["kind"] == "grad"]
ENGINE_JOBS = [k for k, v in JOBS.items() if v["kind"] in ("md", "opt")]
FAR_JOBS = ["far_h2o_dimer", "far_ch2o_pm3", "far_batch", "md_far_h2o"]
STOCHASTIC_PRESET_JOBS = ["md_lang_preset", "md_xldamp_preset"]
OPTION_JOBS = [k for k in JOBS if k.startswith("disp_") or k in ("am1_dimer_cutoff", "am1_h2o_hfflag", "am1_h2o_noeig",
                                                                 "pm3_h2o_altparams", "am1_h2o_learned")]
DISP_JOBS = [k for k in JOBS if k.startswith("disp_")]
RAISE_JOBS = [k for k, v in JOBS.items() if v.get("expect") == "raises"]


def eps_eff(job):
    """threshold the job's own bounds scale with, and the mixing amplification A(alpha)"""
    s = JOBS[job]["sett"]
    e = float(s["scf_eps"])
    if s.get("sp2", [False])[0]:
        e = max(e, float(s["sp2"][1]))
    ex = s.get("excited_states")
    if ex:
        e = max(min(e, 0.1 * ex.get("tolerance", 1e-6)), ex.get("tolerance", 1e-6))
    c = s["scf_converger"]
    A = 1.0 / (1.0 - c[1]) if c[0] == 0 else 1.0
    return e, A


def _mol_names(job):
    spec = JOBS[job]
    m = spec["mol"]
    if spec.get("dimer"):
        return [m[0]]
    if spec.get("dimer_batch"):
        return [x[0] if isinstance(x, list) else x for x in m]
    return m if isinstance(m, list) else [m]


def elements(job):
    from vlib import gen

    out = set()
    for n in _mol_names(job):
        out |= set(gen.molecule(n)[0])
    return sorted(out)


# ---------------------------------------------------------------------------------------------------
# child side
# ---------------------------------------------------------------------------------------------------
def _dimer(name, shift, g, sigma):
    """two copies of a library molecule, the second displaced by `shift` (A) and re-oriented; atoms sorted by Z"""
    from vlib import gen

    Z, X, q, m = gen.molecule(name)
    X1 = gen.distort(X, g, sigma=sigma)
    X2 = gen.distort(X, g, sigma=sigma) @ gen.haar(g).T
    X2 = X2 - X2.mean(axis=0) + X1.mean(axis=0) + np.asarray(shift, float)
    ZZ = list(Z) + list(Z)
    XX = np.vstack([X1, X2])
    order = sorted(range(len(ZZ)), key=lambda i: -ZZ[i])
    return [ZZ[i] for i in order], XX[order], 0, 1


def _geometry(job):
    from vlib import gen

    spec = JOBS[job]
    sigma = spec.get("sigma", 0.05)
    if spec.get("dimer"):
        items = [spec["mol"]]
    elif spec.get("dimer_batch"):
        items = spec["mol"]
    else:
        items = spec["mol"] if isinstance(spec["mol"], list) else [spec["mol"]]
    mols = []
    for i, n in enumerate(items):
        g = np.random.default_rng(1000 * spec["gs"] + i)
        if isinstance(n, list):
            Z, X, q, m = _dimer(n[0], n[1], g, sigma)
        else:
            Z, X, q, m = gen.molecule(n)
            X = gen.distort(X, g, sigma=sigma)
        X = X @ gen.generic_rotation(X, g).T
        mols.append((Z, X, q, m))
    if len(mols) == 1:
        Z, X, q, m = mols[0]
        if spec.get("unsorted"):
            Z = list(reversed(Z))
            X = X[::-1].copy()
        if "force_mult" in spec:
            m = spec["force_mult"]
        return [Z], X[None], q, m
    S, C = gen.pad_batch([(z, x) for z, x, _, _ in mols])
    return S, np.asarray(C), [float(q) for _, _, q, _ in mols], [float(m) for _, _, _, m in mols]


def _snapshot():
    import torch

    import seqm.basics as B
    from seqm.seqm_functions import fock as FK
    from seqm.seqm_functions import scf_loop as SL
    from seqm.seqm_functions import two_elec_two_center_int as TE

    snap = {}
    for a in ("sp2", "converger", "scf_backward_eps", "themethod"):
        v = getattr(SL.SCF, a, "<unset>")
        if torch.is_tensor(v):
            v = float(v)
        snap["SCF." + a] = repr(v)
    fns = {"Pack_Parameters.forward": B.Pack_Parameters.forward, "Energy.forward": B.Energy.forward,
           "Force.forward": B.Force.forward}
    try:
        from seqm.Molecule import Molecule
        fns["Molecule.__init__"] = Molecule.__init__
        from seqm.ElectronicStructure import Electronic_Structure
        fns["Electronic_Structure.forward"] = Electronic_Structure.forward
        from seqm.dynamics import xlbomd as XL
        for nm in ("EnergyXL", "ForceXL"):
            if hasattr(XL, nm):
                fns["xlbomd.%s.forward" % nm] = getattr(XL, nm).forward
    except Exception:
        pass
    for nm, fn in fns.items():
        for i, d in enumerate(fn.__defaults__ or ()):
            if isinstance(d, dict):
                snap["default-dict %s[%d]" % (nm, i)] = sorted(map(str, d.keys()))
            elif isinstance(d, list):
                snap["default-list %s[%d]" % (nm, i)] = repr(d)
    for nm, mod, attr in (("fock._WEIGHT_CACHE", FK, "_WEIGHT_CACHE"), ("fock._INDEX_CACHE", FK, "_INDEX_CACHE"),
                          ("two_elec._PM6_D_PARAM_CACHE", TE, "_PM6_D_PARAM_CACHE")):
        if hasattr(mod, attr):
            snap["cache " + nm] = len(getattr(mod, attr))
    # any other module-level container that looks like a cache (upper-case private name), wherever it lives
    for mn, mod in list(sys.modules.items()):
        if not mn.startswith("seqm") or mod is None:
            continue
        for an, av in list(vars(mod).items()):
            if an.startswith("_") and an.upper() == an and len(an) > 3 and isinstance(av, (dict, list, set)):
                snap.setdefault("cache %s.%s" % (mn.replace("seqm.seqm_functions.", ""), an), len(av))
    snap["torch.default_dtype"] = str(torch.get_default_dtype())
    snap["torch.grad_enabled"] = torch.is_grad_enabled()
    snap["module constant scf_loop.MAX_ITER"] = getattr(SL, "MAX_ITER", None)
    return snap


def _digest(arrays):
    h = hashlib.sha1()
    for k in sorted(arrays):
        a = np.ascontiguousarray(np.asarray(arrays[k]))
        h.update(k.encode())
        h.update(str(a.dtype).encode() + str(a.shape).encode())
        h.update(a.tobytes())
    return h.hexdigest()


class _Registry:
    """settings dictionaries / driver objects kept alive for reuse across steps"""

    def __init__(self):
        self.d = {}

    def get(self, job, reuse, make_driver):
        """-> (settings dict, driver-or-None, info)"""
        spec = JOBS[job]
        sig = spec["sig"]
        info = {"dict_reused": False, "driver_reused": False, "engine_reused": False, "dict_first_elements": None,
                "driver_elements": None}
        if reuse == "none" or sig not in self.d:
            sett = copy.deepcopy(spec["sett"])
            ent = {"sett": sett, "driver": None, "first": job, "driver_for": None, "engine": None}
            if reuse != "none":
                self.d[sig] = ent
            return sett, None, info, ent
        ent = self.d[sig]
        info["dict_reused"] = True
        info["dict_first_elements"] = elements(ent["first"])
        if reuse == "engine" and ent.get("engine") is not None:
            info["engine_reused"] = True
            info["driver_elements"] = ent["driver_for"]
            return ent["sett"], None, info, ent
        if reuse == "driver" and ent["driver"] is not None:
            info["driver_reused"] = True
            info["driver_elements"] = ent["driver_for"]
            return ent["sett"], ent["driver"], info, ent
        return ent["sett"], None, info, ent


def _npy(t):
    import torch

    if t is None:
        return None
    if torch.is_tensor(t):
        return t.detach().cpu().numpy().copy()
    return np.asarray(t)


def _harvest(mol, es, arrays):
    for k, v in (("Etot", mol.Etot), ("Eelec", mol.Eelec), ("Enuc", mol.Enuc), ("Hf", mol.Hf), ("force", mol.force),
                 ("dm", mol.dm), ("e_mo", mol.e_mo), ("gap", mol.e_gap), ("q", mol.q),
                 ("notconverged", getattr(es, "notconverged", None)), ("cis_energies", getattr(mol, "cis_energies", None))):
        a = _npy(v)
        if a is not None and a.size:
            arrays[k] = a.astype(float) if a.dtype == bool else a


def _build(job, sett, learned=None):
    import torch

    from seqm.Molecule import Molecule
    from seqm.seqm_functions.constants import Constants

    S, C, q, m = _geometry(job)
    sp = torch.as_tensor(np.asarray(S), dtype=torch.int64)
    xyz = torch.as_tensor(np.asarray(C, float)).clone()
    if isinstance(q, list):
        q = torch.as_tensor(q, dtype=torch.float64)
        m = torch.as_tensor(m, dtype=torch.float64)
    kw = {}
    if learned is not None:
        kw["learned_parameters"] = learned
    return Molecule(Constants(), sett, xyz, sp, q, m, **kw)


def _learned_for(job):
    """leaf tensors for the learnable parameters of a grad job (table values)"""
    import torch

    import seqm.basics
    from seqm.seqm_functions.parameters import params

    spec = JOBS[job]
    names = spec.get("learned")
    if not names:
        return None, None
    Z = _geometry(job)[0][0]
    els = [0] + sorted(set(Z))
    p = params(method=spec["sett"]["method"], elements=els, root_dir=os.path.dirname(seqm.basics.__file__) + "/params/",
               parameters=names)
    sc = float(spec.get("learned_scale", 1.0))
    mine = {n: (sc * p[torch.tensor(Z), i]).detach().clone().requires_grad_(spec["kind"] == "grad") for i, n in enumerate(names)}
    return dict(mine), mine


def _forward_grad_job(job, sett, driver, prebuilt=None):
    """-> (loss tensor, inputs {name: tensor}, molecule, driver, arrays of forward values)"""
    from seqm.basics import Energy

    spec = JOBS[job]
    if prebuilt is not None:
        mol, learned, mine = prebuilt
    else:
        learned, mine = _learned_for(job)
        mol = _build(job, sett, learned=dict(learned) if learned else None)
    en = driver if driver is not None else Energy(sett)
    kw = {"learned_parameters": dict(learned)} if learned else {}
    Hf, Etot, Eelec, Enuc, Eiso, EnucAB, e_gap, e, P, charge, notconv = en(mol, all_terms=True, **kw)
    L = (e_gap.sum() + 0.01 * Hf.sum()) if sett.get("scf_backward", 0) >= 1 else Hf.sum()
    inputs = {"coords": mol.coordinates}
    for n, t in (mine or {}).items():
        inputs["par_" + n] = t
    arrays = {"Etot": _npy(Etot), "Hf": _npy(Hf), "gap": _npy(e_gap), "e_mo": _npy(e), "dm": _npy(P),
              "notconverged": _npy(notconv).astype(float)}
    return L, inputs, mol, en, arrays


def _alt_param_dir(spec, scratch):
    """a parameter directory whose table differs from the shipped one in a single number (written once per process)"""
    import seqm.basics

    method = spec["sett"]["method"]
    d = os.path.join(scratch, "altparams_%s_%d" % (method, os.getpid())) + "/"
    fn = "parameters_%s_MOPAC.csv" % method
    if not os.path.exists(d + fn):
        os.makedirs(d, exist_ok=True)
        src = os.path.join(os.path.dirname(seqm.basics.__file__), "params", fn)
        lines = open(src).read().splitlines()
        header = lines[0].replace(" ", "").split(",")
        col = header.index(spec["altparams"]["column"])
        out = [lines[0]]
        for ln in lines[1:]:
            t = ln.split(",")
            if t[0].strip() == str(spec["altparams"]["Z"]):
                t[col] = repr(float(t[col]) + spec["altparams"]["delta"])
            out.append(",".join(t))
        with open(d + fn, "w") as f:
            f.write("\n".join(out) + "\n")
    return d


def _run_job(job, reuse, reg, scratch, idx, extra):
    """build + run in one go"""
    gen_ = _job_phases(job, reuse, reg, scratch, idx, extra)
    next(gen_)
    try:
        next(gen_)
    except StopIteration as stop:
        return stop.value
    raise RuntimeError("job generator did not finish")


def _job_phases(job, reuse, reg, scratch, idx, extra):
    """generator: constructs Molecule + driver / engine objects, yields the Molecule (build phase done), then runs the
    job and returns the arrays (StopIteration.value)"""
    import torch

    from seqm.ElectronicStructure import Electronic_Structure

    spec = JOBS[job]
    kind = spec["kind"]
    arrays = {}
    make = None
    sett, driver, info, ent = reg.get(job, reuse, make)
    extra.update(info)
    els = elements(job)
    if (info["driver_reused"] or info["engine_reused"]) and not set(els) <= set(info["driver_elements"] or []):
        extra["driver_reused_with_new_elements"] = True
    if spec.get("altparams"):
        sett["parameter_file_dir"] = _alt_param_dir(spec, scratch)
    if kind == "sp":
        learned = _learned_for(job)[0] if spec.get("learned") else None
        mol = _build(job, sett, learned=dict(learned) if learned else None)
        es = driver if driver is not None else Electronic_Structure(sett)
        if driver is None and reuse != "none":
            ent["driver"], ent["driver_for"] = es, sorted(set(sett.get("elements", els)) - {0})
        yield mol
        if learned:
            es(mol, learned_parameters=dict(learned))
        else:
            es(mol)
        _harvest(mol, es, arrays)
        if spec.get("restart"):
            es(mol, P0=mol.dm)
            a2 = {}
            _harvest(mol, es, a2)
            for k, v in a2.items():
                arrays["restart_" + k] = v
    elif kind == "grad":
        from seqm.basics import Energy

        learned, mine = _learned_for(job)
        mol = _build(job, sett, learned=dict(learned) if learned else None)
        en = driver if driver is not None else Energy(sett)
        if driver is None and reuse != "none":
            ent["driver"], ent["driver_for"] = en, sorted(set(sett.get("elements", els)) - {0})
        yield mol
        L, inputs, mol, en, arrays = _forward_grad_job(job, sett, en, prebuilt=(mol, learned, mine))
        names = list(inputs)
        gr = torch.autograd.grad(L, [inputs[n] for n in names], allow_unused=True)
        for n, g_ in zip(names, gr):
            arrays["grad_" + n] = _npy(g_) if g_ is not None else np.zeros(0)
    elif kind == "xl":
        mol = _build(job, sett)
        es = driver if driver is not None else Electronic_Structure(sett)
        if driver is None and reuse != "none":
            ent["driver"], ent["driver_for"] = es, sorted(set(sett.get("elements", els)) - {0})
        yield mol
        es(mol)
        D = mol.dm.detach().clone()
        es(mol, P0=D, dm_prop="XL-BOMD", xl_bomd_params={"k": 6})
        _harvest(mol, es, arrays)
    elif kind == "md":
        from seqm.MolecularDynamics import KSA_XL_BOMD, XL_BOMD, Molecular_Dynamics_Basic, Molecular_Dynamics_Langevin

        mol = _build(job, sett)
        out = {"molid": [0], "prefix": os.path.join(scratch, "s%d_%s" % (idx, job)), "print every": 0,
               "checkpoint every": 0, "xyz": 0, "h5": {"data": 1, "coordinates": 1, "velocities": 1, "forces": 1}}
        if info["engine_reused"]:
            md = ent["engine"]  # the very same engine object runs a second trajectory on a fresh Molecule
        elif spec["engine"] == "basic":
            md = Molecular_Dynamics_Basic(seqm_parameters=sett, timestep=spec["dt"], Temp=spec["Temp"], output=out)
        elif spec["engine"] == "langevin":
            md = Molecular_Dynamics_Langevin(damp=spec["damp"], seqm_parameters=sett, timestep=spec["dt"],
                                             Temp=spec["Temp"], output=out)
        elif spec["engine"] == "ksa":
            md = KSA_XL_BOMD(xl_bomd_params={"k": spec["k"], "max_rank": 2, "err_threshold": 0.0, "T_el": 300.0},
                             damp=None, seqm_parameters=sett, timestep=spec["dt"], Temp=spec["Temp"], output=out)
        else:
            md = XL_BOMD(xl_bomd_params={"k": spec["k"]}, damp=spec.get("damp"), seqm_parameters=sett, timestep=spec["dt"],
                         Temp=spec["Temp"], output=out)
        if reuse == "engine" and not info["engine_reused"]:
            ent["engine"], ent["driver_for"] = md, sorted(set(sett.get("elements", els)) - {0})
        if spec.get("preset_vel"):
            gv = np.random.default_rng(7000 + spec["gs"])
            V = gv.normal(scale=spec["preset_vel"], size=tuple(mol.coordinates.shape))
            V[(mol.species == 0).numpy()] = 0.0
            mol.velocities = torch.as_tensor(V).clone()
        kw = {}
        for k, v in (spec.get("run_kw") or {}).items():
            kw[k] = tuple(v) if isinstance(v, list) else v
        yield mol
        md.run(mol, spec["steps"], seed=spec["seed"], **kw)
        arrays["md_x"] = _npy(mol.coordinates)
        arrays["md_v"] = _npy(mol.velocities)
        arrays["Etot"] = _npy(mol.Etot)
        arrays["force"] = _npy(mol.force)
    elif kind == "opt":
        from seqm.MolecularDynamics import Geometry_Optimization_SD

        mol = _build(job, sett)
        if info["engine_reused"]:
            opt = ent["engine"]
        else:
            opt = Geometry_Optimization_SD(sett, alpha=spec["alpha"], force_tol=1e-9, max_evl=spec["steps"])
            if reuse == "engine":
                ent["engine"], ent["driver_for"] = opt, sorted(set(sett.get("elements", els)) - {0})
        yield mol
        opt.run(mol, log=False)
        arrays["md_x"] = _npy(mol.coordinates)
        arrays["Etot"] = _npy(mol.Etot)
        arrays["force"] = _npy(mol.force)
    else:
        raise RuntimeError("unknown job kind")
    extra["settings_after"] = {k: (v if isinstance(v, (int, float, str, bool, list)) else repr(v))
                               for k, v in sett.items() if k in ("scf_eps", "elements", "analytical_gradient", "sp2")}
    return arrays


def _interleave(jobs, order, reg):
    """forward every job (fresh dict + driver each), then backward: joint / fifo / lifo -> per-job arrays"""
    import torch

    fw = []
    for job in jobs:
        sett = copy.deepcopy(JOBS[job]["sett"])
        fw.append((job,) + _forward_grad_job(job, sett, None))
    out = {}
    if order == "joint":
        Ltot = sum(f[1] for f in fw)
        flat, owner = [], []
        for i, f in enumerate(fw):
            for n, t in f[2].items():
                flat.append(t)
                owner.append((i, n))
        gr = torch.autograd.grad(Ltot, flat, allow_unused=True)
        res = [dict() for _ in fw]
        for (i, n), g_ in zip(owner, gr):
            res[i]["grad_" + n] = _npy(g_) if g_ is not None else np.zeros(0)
    else:
        idxs = list(range(len(fw)))
        if order == "lifo":
            idxs.reverse()
        res = [dict() for _ in fw]
        for i in idxs:
            names = list(fw[i][2])
            gr = torch.autograd.grad(fw[i][1], [fw[i][2][n] for n in names], allow_unused=True)
            for n, g_ in zip(names, gr):
                res[i]["grad_" + n] = _npy(g_) if g_ is not None else np.zeros(0)
    results = []
    for i, f in enumerate(fw):
        arrays = dict(f[5])
        arrays.update(res[i])
        results.append((f[0], arrays))
    return results


def _poison_heap(rounds):
    """allocator traffic: allocate and free tensors of many sizes filled with NaN / huge values, so that memory handed
    out afterwards is NOT zero.  Correct code never reads uninitialised memory, so this cannot change any result."""
    import torch

    n = 0
    for r in range(max(1, rounds)):
        keep = []
        for k in range(1, 260):
            for fill in (float("nan"), 1e300, -7e222):
                keep.append(torch.full((16 * k,), fill, dtype=torch.float64))
                keep.append(torch.full((81 * k,), fill, dtype=torch.float64))
                n += 2
        for sz in (5000, 20000, 80000, 300000):
            keep.append(torch.full((sz,), float("nan"), dtype=torch.float64))
            keep.append(np.full(sz, np.nan))
            n += 2
        del keep
    return n


def _param_hashes(mol):
    import torch

    out = {}
    for k, v in (getattr(mol, "parameters", None) or {}).items():
        if torch.is_tensor(v):
            out[k] = hashlib.sha1(np.ascontiguousarray(v.detach().cpu().numpy()).tobytes()).hexdigest()
    return out


def _build_then_run(st, reg, scratch, idx):
    """build every job of st['build'] (Molecule + driver / engine objects) in the given order, THEN run st['run']"""
    gens, mols, hashes, extras = {}, {}, {}, {}
    res = {"built": list(st["build"]), "runs": []}
    for j in st["build"]:
        extras[j] = {}
        try:
            gens[j] = _job_phases(j, "none", reg, scratch, idx, extras[j])
            mols[j] = next(gens[j])
            hashes[j] = _param_hashes(mols[j])
        except Exception as exc:
            res["runs"].append({"job": j, "status": "raised", "phase": "build", "exc": ("%s: %s" % (type(exc).__name__, exc))[:300]})
            gens.pop(j, None)
    shared, changed = [], {}
    names = [j for j in st["build"] if j in mols]
    for a in names:
        for b in names:
            if a < b and getattr(mols[a], "parameters", None) is getattr(mols[b], "parameters", object()):
                shared.append([a, b])
        now = _param_hashes(mols[a])
        diff = sorted(k for k in set(now) | set(hashes[a]) if now.get(k) != hashes[a].get(k))
        if diff:
            changed[a] = diff
    res["parameters_dict_shared"] = shared
    res["parameters_changed_by_later_build"] = changed
    for j in st["run"]:
        if j not in gens:
            continue
        try:
            next(gens[j])
            r = {"job": j, "status": "raised", "exc": "job generator did not finish"}
        except StopIteration as stop:
            r = {"job": j, "status": "ok", "arrays": _tolist(stop.value), "sha": _digest(stop.value)}
        except Exception as exc:
            import traceback

            r = {"job": j, "status": "raised", "exc": ("%s: %s" % (type(exc).__name__, exc))[:300], "tb": traceback.format_exc()[-600:]}
        r["reuse"] = "none"
        res["runs"].append(r)
    return res


def _tolist(arrays):
    return {k: np.asarray(v).tolist() for k, v in arrays.items()}


def main():
    spec = json.loads(sys.stdin.read())
    out = os.fdopen(os.dup(1), "w")
    os.dup2(2, 1)
    sys.stdout = os.fdopen(1, "w", buffering=1, closefd=False)
    import warnings

    import torch

    warnings.simplefilter("ignore")
    torch.set_default_dtype(torch.float64)
    torch.set_num_threads(int(spec.get("threads", 1)))
    import seqm  # noqa: F401

    reg = _Registry()
    scratch = spec.get("scratch") or "/tmp"
    results = []
    devnull = open(os.devnull, "w")
    real_stdout = sys.stdout
    for idx, st in enumerate(spec["steps"]):
        t0 = time.time()
        if "set_threads" in st:
            torch.set_num_threads(int(st["set_threads"]))
            results.append({"set_threads": torch.get_num_threads()})
            continue
        if "poison_heap" in st:
            results.append({"poison_heap": _poison_heap(int(st["poison_heap"]))})
            continue
        if "build" in st:
            before = _snapshot()
            sys.stdout = devnull
            try:
                r = _build_then_run(st, reg, scratch, idx)
            finally:
                sys.stdout = real_stdout
            after = _snapshot()
            r["state_changed"] = sorted(k for k in after if after[k] != before.get(k))
            r["wall"] = round(time.time() - t0, 3)
            results.append(r)
            continue
        if "consume_rng" in st:
            torch.rand(int(st["consume_rng"]))
            np.random.rand(int(st["consume_rng"]))
            results.append({"consume_rng": st["consume_rng"]})
            continue
        before = _snapshot()
        sys.stdout = devnull
        try:
            if "interleave" in st:
                try:
                    rs = _interleave(st["interleave"], st.get("order", "joint"), reg)
                    r = {"interleave": [{"job": j, "status": "ok", "arrays": _tolist(a), "sha": _digest(a)} for j, a in rs]}
                except Exception as exc:
                    r = {"interleave": [{"job": j, "status": "raised", "exc": ("%s: %s" % (type(exc).__name__, exc))[:300]}
                                        for j in st["interleave"]]}
            else:
                extra = {}
                try:
                    arrays = _run_job(st["job"], st.get("reuse", "none"), reg, scratch, idx, extra)
                    r = {"job": st["job"], "status": "ok", "arrays": _tolist(arrays), "sha": _digest(arrays)}
                except Exception as exc:
                    import traceback

                    r = {"job": st["job"], "status": "raised", "exc": ("%s: %s" % (type(exc).__name__, exc))[:300],
                         "tb": traceback.format_exc()[-600:]}
                r.update(extra)
                r["reuse"] = st.get("reuse", "none")
        finally:
            sys.stdout = real_stdout
        after = _snapshot()
        r["state_changed"] = sorted(k for k in after if after[k] != before.get(k))
        r["wall"] = round(time.time() - t0, 3)
        results.append(r)
    out.write(json.dumps({"steps": results, "threads_final": torch.get_num_threads()}))
    out.flush()


if __name__ == "__main__":
    main()
