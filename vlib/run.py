"""Thin drivers around the public API of the repository.  Imported only inside workers
(needs torch + the repository on PYTHONPATH).  Everything returned is plain numpy / python."""
import contextlib
import copy
import io
import os
import warnings

import numpy as np
import torch

torch.set_default_dtype(torch.float64)


def settings(method="AM1", eps=1e-10, converger=(2,), sp2=None, uhf=False, grad="autodiff",
             excited=None, active_state=0, scf_backward=0, extra=None):
    """Build a fresh seqm_parameters dict.  grad: autodiff | analytical | numerical."""
    d = {
        "method": method,
        "scf_eps": float(eps),
        "scf_converger": list(converger),
        "sp2": [False] if not sp2 else [True, float(sp2)],
    }
    if uhf:
        d["UHF"] = True
    if grad == "analytical":
        d["analytical_gradient"] = [True]
    elif grad == "numerical":
        d["analytical_gradient"] = [True, "numerical"]
    if excited:
        d["excited_states"] = copy.deepcopy(excited)
    if active_state:
        d["active_state"] = active_state
    if scf_backward:
        d["scf_backward"] = scf_backward
    if extra:
        d.update(copy.deepcopy(extra))
    return d


def tens(x, dtype=torch.float64):
    return torch.as_tensor(np.asarray(x), dtype=dtype)


def build(species, coords, sett, charges=0, mult=1, learned=None):
    """-> (molecule, esdriver, settings-dict actually shared by both)"""
    from seqm.ElectronicStructure import Electronic_Structure
    from seqm.Molecule import Molecule
    from seqm.seqm_functions.constants import Constants

    sett = copy.deepcopy(sett)
    sp = torch.as_tensor(np.asarray(species), dtype=torch.int64)
    xyz = tens(coords).clone()
    if sp.dim() == 1:
        sp = sp.unsqueeze(0)
        xyz = xyz.unsqueeze(0)
    if not isinstance(charges, (int, float)):
        charges = torch.as_tensor(np.asarray(charges), dtype=torch.float64)
    if not isinstance(mult, (int, float)):
        mult = torch.as_tensor(np.asarray(mult), dtype=torch.float64)
    const = Constants()
    kw = {}
    if learned is not None:
        kw["learned_parameters"] = learned
    mol = Molecule(const, sett, xyz, sp, charges, mult, **kw)
    es = Electronic_Structure(sett)
    return mol, es, sett


def npy(t):
    if t is None:
        return None
    if torch.is_tensor(t):
        return t.detach().cpu().numpy().copy()
    return np.asarray(t)


def harvest(mol, es):
    out = {
        "Etot": npy(mol.Etot), "Eelec": npy(mol.Eelec), "Enuc": npy(mol.Enuc), "Hf": npy(mol.Hf),
        "Eiso": npy(mol.Eiso), "force": npy(mol.force), "dm": npy(mol.dm), "e_mo": npy(mol.e_mo),
        "gap": npy(mol.e_gap), "q": npy(mol.q), "dipole": npy(getattr(mol, "dipole", None)),
        "notconverged": npy(getattr(es, "notconverged", None)),
        "cis_energies": npy(getattr(mol, "cis_energies", None)),
        "osc": npy(getattr(mol, "oscillator_strength", None)),
        "nocc": npy(mol.nocc), "norb": npy(mol.norb),
        "tdip": npy(getattr(mol, "transition_dipole", None)),
    }
    if getattr(mol, "all_forces", None) is not None:  # seqm_parameters["do_all_forces"]
        out["all_forces"] = npy(mol.all_forces)
        out["state_dip_relaxed"] = npy(getattr(mol, "all_cis_relaxed_diploles", None))
        out["state_dip_unrelaxed"] = npy(getattr(mol, "all_cis_unrelaxed_diploles", None))
    nac = getattr(mol, "nac", None)
    if isinstance(nac, dict):
        out["nac"] = {"%d-%d" % k: npy(v) for k, v in nac.items()}
    return out


@contextlib.contextmanager
def quiet():
    buf = io.StringIO()
    with warnings.catch_warnings():
        warnings.simplefilter("ignore")
        with contextlib.redirect_stdout(buf):
            yield buf


def single_point(species, coords, sett, charges=0, mult=1, P0=None, learned=None, keep=False):
    """Run Electronic_Structure.forward once.  -> dict of numpy arrays (+ objects when keep)."""
    with quiet():
        mol, es, sett2 = build(species, coords, sett, charges, mult)
        kw = {}
        if P0 is not None:
            kw["P0"] = tens(P0)
        if learned is not None:
            kw["learned_parameters"] = learned
        es(mol, **kw)
    out = harvest(mol, es)
    if keep:
        out["_mol"], out["_es"], out["_sett"] = mol, es, sett2
    return out


def energy_only(species, coords, sett, charges=0, mult=1, P0=None):
    """Total energy per molecule without asking for forces (cheaper for difference quotients)."""
    return single_point(species, coords, sett, charges, mult, P0=P0)["Etot"]


def real_mask(species):
    return np.asarray(species) > 0
