"""Shared molecular-dynamics driver helpers for C08 / C12 / C13 (worker side: needs torch + repo).

build engine + molecule, run into a scratch prefix, read HDF5 groups / XYZ, digests of HDF5
content, supplied-velocity generation with zero net linear / angular momentum, momenta,
independent (CODATA 2018) unit constants.  Nothing here judges anything."""
import contextlib
import copy
import hashlib
import io
import os
import warnings

import numpy as np

# ---------------------------------------------------------------------------------------
# independent unit constants (CODATA 2018; e, k_B exact in the 2019 SI)
# ---------------------------------------------------------------------------------------
E_CHARGE = 1.602176634e-19  # C  (J per eV)
AMU = 1.66053906660e-27  # kg
K_B_SI = 1.380649e-23  # J/K
# derived, in the repository's unit system (Angstrom, fs, amu(=g/mol), eV, K)
REF_ACC_SCALE = E_CHARGE / AMU * 1.0e-10  # (eV/A)/amu -> A/fs^2
REF_KE_SCALE = AMU * 1.0e10 / E_CHARGE  # amu (A/fs)^2 -> eV
REF_TEMP_SCALE = E_CHARGE / K_B_SI  # K per eV
REF_KB_AMU = K_B_SI / AMU * 1.0e-10  # k_B in amu A^2 fs^-2 K^-1
REF_VEL_SCALE = REF_KB_AMU ** 0.5  # sqrt(K/amu) -> A/fs
REF_KB_EV = K_B_SI / E_CHARGE  # eV/K


def live_constants():
    from seqm.MolecularDynamics import CONSTANTS

    return {"ACC_SCALE": float(CONSTANTS.ACC_SCALE), "VEL_SCALE": float(CONSTANTS.VEL_SCALE),
            "KINETIC_ENERGY_SCALE": float(CONSTANTS.KINETIC_ENERGY_SCALE),
            "TEMPERATURE_SCALE": float(CONSTANTS.TEMPERATURE_SCALE)}


def masses(Z):
    """atomic masses (amu) of the shipped table -- the property's given; 0 for padding."""
    from seqm.seqm_functions.constants import Constants

    global _MASS
    try:
        m = _MASS
    except NameError:
        import torch

        with torch.no_grad():
            m = _MASS = Constants().mass.detach().cpu().numpy().astype(float).copy()
    return m[np.asarray(Z, dtype=int)]


# ---------------------------------------------------------------------------------------
# output dictionaries / engines
# ---------------------------------------------------------------------------------------
def output_cfg(prefix, molid=(0,), data=1, coordinates=1, velocities=1, forces=1, xyz=0, checkpoint=0,
               print_every=0, h5_extra=None):
    h5 = {}
    if data:
        h5["data"] = int(data)
    if coordinates:
        h5["coordinates"] = int(coordinates)
    if velocities:
        h5["velocities"] = int(velocities)
    if forces:
        h5["forces"] = int(forces)
    if h5_extra:
        h5.update(h5_extra)
    return {"molid": list(molid), "prefix": prefix, "print every": int(print_every),
            "checkpoint every": int(checkpoint), "xyz": int(xyz), "h5": h5}


@contextlib.contextmanager
def quiet():
    buf = io.StringIO()
    with warnings.catch_warnings():
        warnings.simplefilter("ignore")
        with contextlib.redirect_stdout(buf):
            yield buf


def _as_batch(species, coords):
    sp = np.asarray(species, dtype=np.int64)
    xyz = np.asarray(coords, dtype=float)
    if sp.ndim == 1:
        sp = sp[None]
        xyz = xyz[None]
    return sp, xyz


def make_engine(engine, sett, dt, Temp, output, damp=None, xl=None, engine_kw=None):
    """engine object only (for a Molecule built with the SAME settings dict `sett`)."""
    import seqm.MolecularDynamics as MD

    kw = dict(seqm_parameters=sett, timestep=float(dt), Temp=float(Temp), output=copy.deepcopy(output))
    kw.update(engine_kw or {})
    if engine == "basic":
        md = MD.Molecular_Dynamics_Basic(**kw)
    elif engine == "langevin":
        md = MD.Molecular_Dynamics_Langevin(damp=damp, **kw)
    elif engine == "xl":
        md = MD.XL_BOMD(damp=damp, xl_bomd_params=copy.deepcopy(xl or {"k": 6}), **kw)
    elif engine == "ksa":
        md = MD.KSA_XL_BOMD(damp=damp, xl_bomd_params=copy.deepcopy(
            xl or {"k": 6, "max_rank": 3, "err_threshold": 0.0, "T_el": 1500}), **kw)
    elif engine == "sh":
        from seqm.NonadiabaticDynamics import SurfaceHoppingDynamics

        md = SurfaceHoppingDynamics(damp=damp, **kw)
    else:
        raise ValueError(engine)
    return md


def build_md(engine, species, coords, sett, dt, Temp, output, charges=0, mult=1, damp=None, xl=None,
             velocities=None, engine_kw=None):
    """-> (molecule, md).  engine in basic | langevin | xl | ksa | sh (surface hopping).
    Molecule and driver share ONE settings dict (Molecule adds 'elements' to it)."""
    import torch
    from seqm.Molecule import Molecule
    from seqm.seqm_functions.constants import Constants
    sett = copy.deepcopy(sett)
    sp, xyz = _as_batch(species, coords)
    spt = torch.as_tensor(sp, dtype=torch.int64)
    xt = torch.as_tensor(xyz, dtype=torch.float64).clone()
    if not isinstance(charges, (int, float)):
        charges = torch.as_tensor(np.asarray(charges), dtype=torch.float64)
    if not isinstance(mult, (int, float)):
        mult = torch.as_tensor(np.asarray(mult), dtype=torch.float64)
    mol = Molecule(Constants(), sett, xt, spt, charges, mult)
    md = make_engine(engine, sett, dt, Temp, output, damp=damp, xl=xl, engine_kw=engine_kw)
    if velocities is not None:
        v = np.asarray(velocities, dtype=float)
        if v.ndim == 2:
            v = v[None]
        mol.velocities = torch.as_tensor(v, dtype=torch.float64).clone()
    return mol, md


def run_md(engine, species, coords, sett, dt, Temp, steps, prefix, molid=(0,), charges=0, mult=1, damp=None,
           xl=None, velocities=None, seed=None, reuse_P=True, remove_com=None, out_kw=None, engine_kw=None,
           pre_run=None, keep=False, engine_obj=None):
    """Real `md.run` into `prefix`.  engine_obj: an EXISTING driver object to be reused on a fresh Molecule (its output
    prefix is the one it was built with -- pass the same `prefix` so that the files are found).  -> dict: h5 (per molid, see read_h5), final coordinates / velocities of
    the Molecule object (all rows incl. padding), the exception text if run raised (`error`).
    pre_run(mol, md) is called right before md.run (monitors attach there)."""
    out = output_cfg(prefix, molid, **(out_kw or {}))
    rec = {"error": None}
    with quiet() as buf:
        if engine_obj is None:
            mol, md = build_md(engine, species, coords, sett, dt, Temp, out, charges, mult, damp, xl, velocities,
                               engine_kw)
        else:
            mol, _ = build_md("basic", species, coords, sett, dt, Temp, out, charges, mult, velocities=velocities)
            md = engine_obj
        if pre_run is not None:
            pre_run(mol, md)
        try:
            md.run(mol, steps=int(steps), reuse_P=reuse_P, remove_com=remove_com, seed=seed)
        except Exception as exc:  # the caller decides whether an exception is an observation
            rec["error"] = "%s: %s" % (type(exc).__name__, exc)
    rec["stdout"] = buf.getvalue()[-2000:]
    rec["h5"] = {}
    for m in molid:
        p = "%s.%d.h5" % (prefix, m)
        if os.path.exists(p):
            rec["h5"][m] = read_h5(p)
    rec["x_final"] = mol.coordinates.detach().cpu().numpy().copy()
    rec["v_final"] = None if mol.velocities is None else mol.velocities.detach().cpu().numpy().copy()
    rec["n_dof"] = None if md.n_dof is None else np.asarray(md.n_dof.detach().cpu() if hasattr(md.n_dof, "detach") else md.n_dof, dtype=float).reshape(-1)
    if keep:
        rec["_mol"], rec["_md"] = mol, md
    return rec


# ---------------------------------------------------------------------------------------
# files
# ---------------------------------------------------------------------------------------
def read_h5(path):
    """-> dict with atoms, dt, data_steps, T, Ek, Ep, dipole, and per vector stream <name>_steps / <name>."""
    import h5py

    r = {"path": path}
    with h5py.File(path, "r") as f:
        r["atoms"] = f["atoms"][...].astype(int)
        r["dt"] = float(f.attrs.get("timestep_fs", np.nan))
        if "data" in f and "steps" in f["data"]:
            g = f["data"]
            r["data_steps"] = g["steps"][...]
            r["T"] = g["thermo/T"][...]
            r["Ek"] = g["thermo/Ek"][...]
            r["Ep"] = g["thermo/Ep"][...]
            r["dipole"] = g["properties/ground_dipole"][...]
            if "excitation" in g and "state_energies" in g["excitation"]:
                r["state_energies"] = g["excitation/state_energies"][...]
        for name in ("coordinates", "velocities", "forces"):
            if name in f:
                r[name + "_steps"] = f[name + "/steps"][...]
                r[name] = f[name + "/values"][...]
    return r


def h5_digest(path):
    """SHA-1 over every dataset (name, shape, dtype, raw bytes) and attribute of an HDF5 file: two
    files have the same digest iff their logical content is bitwise identical."""
    import h5py

    h = hashlib.sha1()
    items = []

    def visit(name, obj):
        if isinstance(obj, h5py.Dataset):
            a = obj[...]
            items.append((name, str(a.shape), str(a.dtype), np.ascontiguousarray(a).tobytes()))

    with h5py.File(path, "r") as f:
        f.visititems(visit)
        for k in sorted(f.attrs):
            items.append(("@" + k, "", "", np.asarray(f.attrs[k]).tobytes()))
    for name, sh, dt, b in sorted(items, key=lambda t: t[0]):
        h.update(name.encode())
        h.update(sh.encode())
        h.update(dt.encode())
        h.update(b)
    return h.hexdigest()


def read_xyz(path):
    """-> list of (comment line, symbols list, coords array) frames."""
    frames = []
    with open(path) as f:
        lines = f.read().splitlines()
    i = 0
    while i < len(lines):
        if not lines[i].strip():
            i += 1
            continue
        n = int(lines[i].split()[0])
        comment = lines[i + 1]
        sym, xyz = [], []
        for ln in lines[i + 2: i + 2 + n]:
            p = ln.split()
            sym.append(p[0])
            xyz.append([float(p[1]), float(p[2]), float(p[3])])
        frames.append((comment, sym, np.array(xyz)))
        i += 2 + n
    return frames


# ---------------------------------------------------------------------------------------
# mechanics (numpy, independent of the repository)
# ---------------------------------------------------------------------------------------
def com(m, X):
    m = np.asarray(m, float)
    return (m[:, None] * X).sum(0) / m.sum()


def momenta(m, X, V):
    """-> (P[3], L[3] about the centre of mass) in amu A/fs, amu A^2/fs."""
    m = np.asarray(m, float)
    P = (m[:, None] * V).sum(0)
    r = X - com(m, X)
    L = (m[:, None] * np.cross(r, V)).sum(0)
    return P, L


def momentum_scales(m, X, V):
    """natural magnitudes sum m|v| and sum m|r-rcom||v| used to normalise P and L."""
    m = np.asarray(m, float)
    r = X - com(m, X)
    vn = np.linalg.norm(V, axis=1)
    return float((m * vn).sum()), float((m * np.linalg.norm(r, axis=1) * vn).sum())


def kinetic_amu(m, V):
    """0.5 sum m v^2 in amu (A/fs)^2 (multiply by a KE scale to get eV)."""
    m = np.asarray(m, float)
    return 0.5 * float((m[:, None] * V * V).sum())


def inertia(m, r):
    m = np.asarray(m, float)
    I = np.zeros((3, 3))
    for mi, ri in zip(m, r):
        I += mi * ((ri @ ri) * np.eye(3) - np.outer(ri, ri))
    return I


def inertia_rank(m, X, rtol=1e-6):
    """number of non-negligible principal moments of inertia (3 generic, 2 collinear atoms, 0 single atom)."""
    w = np.linalg.eigvalsh(inertia(m, np.asarray(X, float) - com(m, X)))
    return int((w > rtol * max(w.max(), 1e-300)).sum())


def strip_rigid(m, X, V, linear=True, angular=True):
    """remove net linear and/or angular momentum from V (numpy; pseudo-inverse for linear molecules)."""
    m = np.asarray(m, float)
    V = np.array(V, float)
    if linear:
        V -= (m[:, None] * V).sum(0) / m.sum()
    if angular:
        r = X - com(m, X)
        L = (m[:, None] * np.cross(r, V)).sum(0)
        om = np.linalg.pinv(inertia(m, r), rcond=1e-10) @ L
        V -= np.cross(om, r)
    return V


def supplied_velocities(Z, X, T, g, net_linear=False, net_angular=False, n_dof=None):
    """Maxwell-Boltzmann-like field for the real atoms of ONE molecule (padding rows, Z == 0, get 0),
    with zero net linear / angular momentum unless asked otherwise, rescaled so that the kinetic
    temperature under n_dof (default 3N) is exactly T.  Units A/fs."""
    Z = np.asarray(Z, int)
    X = np.asarray(X, float)
    real = Z > 0
    m = masses(Z[real])
    n = int(real.sum())
    v = g.normal(size=(n, 3)) * np.sqrt(REF_KB_AMU * max(T, 1e-30) / m)[:, None]
    v = strip_rigid(m, X[real], v, linear=True, angular=True)
    if net_linear:
        v = v + g.normal(size=3) * np.sqrt(REF_KB_AMU * max(T, 1e-30) / m.sum()) * 2.0
    if net_angular:
        r = X[real] - com(m, X[real])
        om = g.normal(size=3)
        om *= 0.02 / max(np.linalg.norm(om), 1e-30)  # rad/fs
        v = v + np.cross(om, r)
    nd = float(n_dof) if n_dof else 3.0 * n
    ek = kinetic_amu(m, v)
    if T > 0 and ek > 0:
        v *= np.sqrt(0.5 * nd * REF_KB_AMU * T / ek)
    else:
        v *= 0.0
    out = np.zeros_like(X)
    out[real] = v
    return out
