"""Closed-form cross-checks of the reference models in vlib/ref (run: python -m vlib.ref.selftest; exit 0 / 1).

None of these checks touches the package under test: they compare R1 with analytic results (Mulliken overlap formulas,
point-charge limits, defining equations of the additive terms, radial moments, Slater-Condon term energies,
dE/dP = F, rotational invariance, index symmetries)."""
import math
import sys
import time

import numpy as np
from scipy.integrate import quad

from . import nddo

FAIL = []
NCHECK = [0]


def check(name, value, bound):
    NCHECK[0] += 1
    ok = bool(np.isfinite(value) and abs(value) <= bound)
    if not ok:
        FAIL.append(name)
    print("%-74s %.3e <= %.1e %s" % (name, abs(value), bound, "ok" if ok else "FAIL"))


def overlap_checks():
    # Mulliken, Rieke, Orloff, Orloff (1949) closed forms, equal exponents, p = zeta * R.
    # Convention here: both p_sigma point along A->B (so S(2ps,2ps) -> +1 as R -> 0).
    for z, R in ((1.0, 1.4), (1.24, 0.7), (1.7, 3.1), (0.8, 9.0)):
        p = z * R
        e = math.exp(-p)
        S = nddo.overlap_local(1, z, z, 1, 1, z, z, 1, R)
        check("1s-1s equal zeta (z=%g R=%g)" % (z, R), S[0, 0] - e * (1 + p + p * p / 3), 1e-13)
        S = nddo.overlap_local(2, z, z, 4, 2, z, z, 4, R)
        check("2s-2s equal zeta (z=%g R=%g)" % (z, R),
              S[0, 0] - e * (1 + p + 4 * p ** 2 / 9 + p ** 3 / 9 + p ** 4 / 45), 1e-13)
        check("2ps-2ps equal zeta (z=%g R=%g)" % (z, R),
              S[1, 1] - e * (1 + p + p ** 2 / 5 - 2 * p ** 3 / 15 - p ** 4 / 15), 1e-13)
        check("2ppi-2ppi equal zeta (z=%g R=%g)" % (z, R),
              S[2, 2] - e * (1 + p + 2 * p ** 2 / 5 + p ** 3 / 15), 1e-13)
        # 2s-2p_sigma, equal zeta: |S| = e^-p * (p/(2 sqrt3)) * (1 + p + 7p^2/15 + 2p^3/15); s_A sees the negative lobe of p_B
        v = e * (p / (2 * math.sqrt(3))) * (1 + p + 7 * p ** 2 / 15 + 2 * p ** 3 / 15)
        check("2s-2ps equal zeta, sign convention (z=%g R=%g)" % (z, R), S[0, 1] + v, 1e-13)
        check("2ps-2s equal zeta, sign convention (z=%g R=%g)" % (z, R), S[1, 0] - v, 1e-13)
        check("pi/pi' and sigma/pi blocks vanish", max(abs(S[1, 2]), abs(S[2, 3]), abs(S[0, 2]), abs(S[3, 3] - S[2, 2])), 1e-15)
    # 1s-1s unequal exponents: S = N_A N_B (R/2)^3 / 2 * [A2 B0 - A0 B2] with closed-form auxiliary integrals
    for za, zb, R in ((1.3, 0.9, 1.9), (2.4, 0.7, 1.1), (1.0, 1.2, 2.0)):
        a, b = 0.5 * R * (za + zb), 0.5 * R * (za - zb)
        A0 = math.exp(-a) / a
        A2 = math.exp(-a) * (1 / a + 2 / a ** 2 + 2 / a ** 3)
        B0 = 2 * math.sinh(b) / b
        B2 = 2 * math.sinh(b) / b - 4 * math.cosh(b) / b ** 2 + 4 * math.sinh(b) / b ** 3
        ref = 2 * za ** 1.5 * 2 * zb ** 1.5 * (R / 2) ** 3 * 0.5 * (A2 * B0 - A0 * B2)
        S = nddo.overlap_local(1, za, za, 1, 1, zb, zb, 1, R)
        check("1s-1s unequal zeta (%g,%g,R=%g)" % (za, zb, R), S[0, 0] - ref, 2e-12)
    # united-atom limit: <ns|ns> -> 1, <np|np> -> 1 for n = 2, 3 (orthonormality of the basis as R -> 0)
    for n in (2, 3):
        S = nddo.overlap_local(n, 1.3, 1.1, 4, n, 1.3, 1.1, 4, 1e-4)
        check("R->0 limit: diag -> 1 (n=%d)" % n, np.abs(np.diag(S) - 1).max(), 1e-7)
        check("R->0 limit: s-p -> 0 (n=%d)" % n, max(abs(S[0, 1]), abs(S[1, 0])), 1e-3)
    # independent brute-force check of a 3s-2p_sigma / 3p-3p integral by an adaptive 2-D integration in spherical
    # coordinates about A (different coordinates, different rule)
    def brute(nA, zA, tA, nB, zB, tB, R):
        NA, NB = nddo._norm(nA, zA), nddo._norm(nB, zB)

        def ang(t, c, s):  # after phi integration handled below
            return {"s": 1.0, "z": c, "x": s}[t]

        def inner(r):
            def f(th):
                c, s = math.cos(th), math.sin(th)
                zB_, rho = r * c - R, r * s
                rB = math.hypot(zB_, rho)
                cB, sB = zB_ / rB, rho / rB
                fa = {"s": math.sqrt(1 / (4 * math.pi)), "z": math.sqrt(3 / (4 * math.pi)) * c, "x": math.sqrt(3 / (4 * math.pi)) * s}[tA]
                fb = {"s": math.sqrt(1 / (4 * math.pi)), "z": math.sqrt(3 / (4 * math.pi)) * cB, "x": math.sqrt(3 / (4 * math.pi)) * sB}[tB]
                phi = math.pi if (tA == "x" and tB == "x") else 2 * math.pi
                return fa * fb * phi * r ** (nA - 1) * math.exp(-zA * r) * rB ** (nB - 1) * math.exp(-zB * rB) * r * r * s
            return quad(f, 0, math.pi, epsabs=1e-13, epsrel=1e-12, limit=200)[0]
        return NA * NB * quad(inner, 0, 40.0 / min(zA, zB), epsabs=1e-13, epsrel=1e-11, limit=400, points=[R])[0]

    R = 2.9
    S = nddo.overlap_local(3, 2.1, 1.6, 4, 2, 2.3, 1.9, 4, R)
    check("3s-2ps vs brute-force spherical quadrature", S[0, 1] - brute(3, 2.1, "s", 2, 1.9, "z", R), 2e-9)
    check("3ps-2s vs brute-force spherical quadrature", S[1, 0] - brute(3, 1.6, "z", 2, 2.3, "s", R), 2e-9)
    check("3ppi-2ppi vs brute-force spherical quadrature", S[2, 2] - brute(3, 1.6, "x", 2, 1.9, "x", R), 2e-9)
    S = nddo.overlap_local(3, 2.1, 1.6, 4, 1, 1.2, 1.2, 1, 2.0)
    check("3ps-1s vs brute-force spherical quadrature", S[1, 0] - brute(3, 1.6, "z", 1, 1.2, "s", 2.0), 2e-9)
    # quadrature order independence
    Sa = nddo.overlap_local(3, 3.78, 2.04, 4, 3, 0.73, 0.83, 4, 28.0)
    Sb = nddo.overlap_local(3, 3.78, 2.04, 4, 3, 0.73, 0.83, 4, 28.0, nl=64, ne=320)
    check("quadrature converged at R=28 bohr, b=43 (3-3)", np.abs(Sa - Sb).max(), 1e-14)
    Sa = nddo.overlap_local(3, 3.78, 2.04, 4, 2, 2.85, 2.85, 4, 1.2)
    Sb = nddo.overlap_local(3, 3.78, 2.04, 4, 2, 2.85, 2.85, 4, 1.2, nl=64, ne=320)
    check("quadrature converged at R=1.2 bohr (3-2)", np.abs(Sa - Sb).max(), 1e-12)


def multipole_checks():
    EV = nddo.EV
    for method in nddo.METHODS:
        for Z in nddo.elements(method):
            a = nddo.atom(method, Z)
            tag = "%s Z=%d" % (method, Z)
            check(tag + " rho0 = e^2/(2 gss)", a.rho0 - EV / (2 * a.gss), 1e-14)
            if a.nao == 1:
                continue
            # closed-form defining equations (Dewar-Thiel 1977, eqs for the dipole and quadrupole additive terms)
            r1 = 0.25 * EV * (1 / a.rho1 - 1 / math.sqrt(a.rho1 ** 2 + a.D1 ** 2)) - a.hsp
            hpp = max(0.1, 0.5 * (a.gpp - a.gp2))
            r2 = 0.125 * EV * (1 / a.rho2 - 2 / math.sqrt(a.rho2 ** 2 + a.D2 ** 2) + 1 / math.sqrt(a.rho2 ** 2 + 2 * a.D2 ** 2)) - hpp
            check(tag + " rho1 satisfies its defining equation", r1 / a.hsp, 1e-11)
            check(tag + " rho2 satisfies its defining equation (hpp floor 0.1)", r2 / hpp, 1e-11)
            # D1, D2 against numerically integrated radial moments of the Slater functions
            n = a.n
            Rs = lambda r: nddo._norm(n, a.zs) * r ** (n - 1) * math.exp(-a.zs * r)
            Rp = lambda r: nddo._norm(n, a.zp) * r ** (n - 1) * math.exp(-a.zp * r)
            up = 60.0 / min(a.zs, a.zp)
            d1 = quad(lambda r: Rs(r) * Rp(r) * r ** 3, 0, up, epsabs=1e-14, epsrel=1e-13, limit=300)[0] / math.sqrt(3)
            r2p = quad(lambda r: Rp(r) ** 2 * r ** 4, 0, up, epsabs=1e-14, epsrel=1e-13, limit=300)[0]
            check(tag + " D1 = <s|z|p_z>", (a.D1 - d1) / d1, 1e-10)
            check(tag + " D2^2 = <r^2>_p / 5", (a.D2 ** 2 - r2p / 5) / a.D2 ** 2, 1e-10)
            # one-centre limits of the two-centre formula (R = 0, same atom)
            L = nddo.point_charge_eri(a.cs, a.rho, a.cs, a.rho, 0.0)
            check(tag + " (ss|ss)(R=0) = gss", L[0, 0, 0, 0] - a.gss, 1e-12)
            check(tag + " (s ps|s ps)(R=0) = hsp", L[0, 1, 0, 1] - a.hsp, 1e-10)
            check(tag + " (pi pi'|pi pi')(R=0) = max(hpp, 0.1)", L[2, 3, 2, 3] - hpp, 1e-10)
    # asymptotics and signs, C-N AM1 pair
    A, B = nddo.atom("AM1", 7), nddo.atom("AM1", 6)
    for R in (200.0, 800.0):
        L = nddo.eri_local(A, B, R)
        check("(ss|ss) -> e^2/R at R=%g" % R, (L[0, 0, 0, 0] - EV / R) * R / EV, 2.0 / R ** 2 * (A.rho0 + B.rho0) ** 2)
        check("(s ps|ss) -> +e^2 D1_A/R^2 at R=%g (A's p_sigma points to B)" % R, L[0, 1, 0, 0] / (EV * A.D1 / R ** 2) - 1, 50.0 / R ** 2)
        check("(ss|s ps) -> -e^2 D1_B/R^2 at R=%g (B's p_sigma points away from A)" % R, L[0, 0, 0, 1] / (-EV * B.D1 / R ** 2) - 1, 50.0 / R ** 2)
        # linear quadrupole along the axis: Q_zz = 2 D2^2 * ... : (ps ps|ss) - (ss|ss) -> e^2 * 2 * (2 D2)^2 /4 ... /R^3 = 2 e^2 D2^2 / R^3
        check("(ps ps|ss)-(ss|ss) -> 2 e^2 D2^2/R^3 at R=%g" % R, (L[1, 1, 0, 0] - L[0, 0, 0, 0]) / (2 * EV * A.D2 ** 2 / R ** 3) - 1, 100.0 / R ** 2)
        check("(pp pp|ss)-(ss|ss) -> -e^2 D2^2/R^3 at R=%g" % R, (L[2, 2, 0, 0] - L[0, 0, 0, 0]) / (-EV * A.D2 ** 2 / R ** 3) - 1, 100.0 / R ** 2)
    L = nddo.eri_local(A, B, 2.3)
    check("symmetry-forbidden integrals vanish, e.g. (s pp|ss), (ps pp|ss), (pp pp'|ss)", max(abs(L[0, 2, 0, 0]), abs(L[1, 2, 0, 0]), abs(L[2, 3, 0, 0]), abs(L[0, 0, 1, 3])), 1e-14)
    check("(pp pp'|pp pp') = ((pp pp|pp pp) - (pp pp|pp' pp'))/2", L[2, 3, 2, 3] - 0.5 * (L[2, 2, 2, 2] - L[2, 2, 3, 3]), 1e-15)
    check("(ab|cd) = (ba|cd) = (ab|dc)", max(np.abs(L - L.transpose(1, 0, 2, 3)).max(), np.abs(L - L.transpose(0, 1, 3, 2)).max()), 1e-15)
    # exchanging the centres: (ab|cd)[A at 0, B at R] with reversed axis
    xA, xB = np.array([0.1, -0.4, 0.3]), np.array([1.0, 0.7, -0.2])
    W = nddo.eri_pair(A, B, xA, xB)
    Wt = nddo.eri_pair(B, A, xB, xA)
    check("centre exchange = block transpose", np.abs(W - Wt.transpose(2, 3, 0, 1)).max(), 1e-13)
    W2 = nddo.eri_pair(A, B, xA, xB, spin=0.83)
    check("ERIs independent of the choice of the perpendicular axes", np.abs(W - W2).max(), 1e-13)
    S1, S2 = nddo.overlap_pair(A, B, xA, xB), nddo.overlap_pair(A, B, xA, xB, spin=2.1)
    check("overlaps independent of the choice of the perpendicular axes", np.abs(S1 - S2).max(), 1e-14)
    check("overlap centre exchange = transpose", np.abs(S1 - nddo.overlap_pair(B, A, xB, xA).T).max(), 1e-14)


def atom_checks():
    # Dewar-Thiel (1977) isolated-atom expressions, written out by hand for a few atoms
    for method in nddo.METHODS:
        c = nddo.atom(method, 6)
        check(method + " Eisol(C) = 2Uss+2Upp+gss+4gsp-2hsp+1.5gp2-0.5gpp",
              c.eisol() - (2 * c.uss + 2 * c.upp + c.gss + 4 * c.gsp - 2 * c.hsp + 1.5 * c.gp2 - 0.5 * c.gpp), 1e-12)
        n = nddo.atom(method, 7)
        check(method + " Eisol(N) = 2Uss+3Upp+gss+6gsp-3hsp+4.5gp2-1.5gpp",
              n.eisol() - (2 * n.uss + 3 * n.upp + n.gss + 6 * n.gsp - 3 * n.hsp + 4.5 * n.gp2 - 1.5 * n.gpp), 1e-12)
        o = nddo.atom(method, 8)
        check(method + " Eisol(O) = 2Uss+4Upp+gss+8gsp-4hsp+6.5gp2-0.5gpp",
              o.eisol() - (2 * o.uss + 4 * o.upp + o.gss + 8 * o.gsp - 4 * o.hsp + 6.5 * o.gp2 - 0.5 * o.gpp), 1e-12)
        f = nddo.atom(method, 17)
        check(method + " Eisol(Cl) = 2Uss+5Upp+gss+10gsp-5hsp+10gp2",
              f.eisol() - (2 * f.uss + 5 * f.upp + f.gss + 10 * f.gsp - 5 * f.hsp + 10 * f.gp2), 1e-12)
        h = nddo.atom(method, 1)
        check(method + " Eisol(H) = Uss", h.eisol() - h.uss, 0.0)
    # Eisol of carbon also equals the UHF energy of the one-centre model with the Hund occupation s^2 px(a) py(a)
    c = nddo.atom("MNDO", 6)
    m = nddo.Model("MNDO", [6], [[0.0, 0, 0]])
    Pa, Pb = np.diag([1.0, 1, 1, 0]), np.diag([1.0, 0, 0, 0])
    check("Eisol(C) = one-centre UHF energy of s2 px py (3P)", m.eelec_uhf(Pa, Pb) - c.eisol(), 1e-12)
    n = nddo.atom("PM3", 7)
    m = nddo.Model("PM3", [7], [[0.0, 0, 0]])
    check("Eisol(N) = one-centre UHF energy of s2 px py pz (4S)", m.eelec_uhf(np.diag([1.0, 1, 1, 1]), np.diag([1.0, 0, 0, 0])) - n.eisol(), 1e-12)


def molecule_checks():
    g = np.random.default_rng(5)
    Z = [8, 7, 6, 1, 1]
    X = np.array([[0.0, 0, 0], [1.2, 0.1, 0], [-0.5, 1.1, 0.2], [1.7, -0.8, 0.3], [-1.2, 1.3, 1.0]])
    for method in nddo.METHODS:
        m = nddo.Model(method, Z, X)
        N = m.nao
        check(method + " H symmetric", np.abs(m.H - m.H.T).max(), 1e-13)
        e = m.eri
        check(method + " (mn|ls) = (ls|mn) = (nm|ls)", max(np.abs(e - e.transpose(2, 3, 0, 1)).max(), np.abs(e - e.transpose(1, 0, 2, 3)).max()), 1e-13)
        P = g.normal(size=(N, N)) * 0.3
        P = P + P.T
        D = g.normal(size=(N, N))
        D = D + D.T
        h = 1e-4
        fd = (m.eelec_rhf(P + h * D) - m.eelec_rhf(P - h * D)) / (2 * h)
        check(method + " dE/dP = F (restricted)", (fd - np.sum(m.fock_rhf(P) * D)) / abs(fd), 1e-9)
        Pa, Pb = g.normal(size=(N, N)) * 0.2, g.normal(size=(N, N)) * 0.2
        Pa, Pb = Pa + Pa.T, Pb + Pb.T
        fd = (m.eelec_uhf(Pa + h * D, Pb) - m.eelec_uhf(Pa - h * D, Pb)) / (2 * h)
        check(method + " dE/dPa = Fa (unrestricted)", (fd - np.sum(m.fock_uhf(Pa, Pb)[0] * D)) / abs(fd), 1e-9)
        Fa, Fb = m.fock_uhf(0.5 * P, 0.5 * P)
        check(method + " UHF with Pa=Pb reduces to RHF", max(np.abs(Fa - m.fock_rhf(P)).max(), np.abs(Fb - Fa).max()), 1e-12)
        # rigid rotation + translation
        Q = np.linalg.qr(g.normal(size=(3, 3)))[0]
        if np.linalg.det(Q) < 0:
            Q[:, 0] *= -1
        m2 = nddo.Model(method, Z, X @ Q.T + np.array([3.0, -1, 2]))
        T = np.zeros((N, N))
        for i, a in enumerate(m.atoms):
            s = slice(m.off[i], m.off[i + 1])
            T[s, s] = nddo.ao_transform(Q.T, a.nao)   # rotated p_k = sum_l Q[k,l]... consistent with X @ Q.T
        P2 = T.T @ P @ T
        check(method + " E_elec invariant under rigid motion", (m2.eelec_rhf(P2) - m.eelec_rhf(P)) / abs(m.eelec_rhf(P)), 1e-12)
        check(method + " core-core invariant under rigid motion", m2.enuc - m.enuc, 1e-10)
        # separated-atom limit: energy of far-apart neutral atoms -> sum of isolated-atom energies (UHF, Hund occupations)
    far = nddo.Model("AM1", [6, 1], [[0, 0, 0], [400.0, 0, 0]])
    Pa = np.diag([1.0, 1, 1, 0, 1.0])
    Pb = np.diag([1.0, 0, 0, 0, 0.0])
    efar = far.eelec_uhf(Pa, Pb) + far.enuc
    check("C + H at 400 A: E -> Eisol(C) + Eisol(H) (neutral atoms, multipole tail only)", efar - far.eiso_sum, 1e-4)
    # N-H / O-H special form and Gaussian bookkeeping
    info = {}
    A, B = nddo.atom("MNDO", 7), nddo.atom("MNDO", 1)
    R = 1.9
    e = nddo.core_core("MNDO", A, B, R, info)
    RA = R * nddo.A0
    gam = nddo.EV / math.sqrt(R * R + (A.rho0 + B.rho0) ** 2)
    check("MNDO N-H core term = ZZ gam (1 + R e^-aN R + e^-aH R)", e - 5 * gam * (1 + RA * math.exp(-A.alpha * RA) + math.exp(-B.alpha * RA)), 1e-12)
    check("N-H flagged", 0.0 if info["special"] == "NH" else 1.0, 0.0)
    A, B = nddo.atom("MNDO", 6), nddo.atom("MNDO", 1)
    e = nddo.core_core("MNDO", A, B, R, info)
    gam = nddo.EV / math.sqrt(R * R + (A.rho0 + B.rho0) ** 2)
    check("MNDO C-H core term = ZZ gam (1 + e^-aC R + e^-aH R)", e - 4 * gam * (1 + math.exp(-A.alpha * RA) + math.exp(-B.alpha * RA)), 1e-12)
    check("PM3 uses 2 Gaussians per atom, AM1 up to 4", abs(len(nddo.atom("PM3", 6).gauss) - 2) + abs(len(nddo.atom("AM1", 6).gauss) - 4), 0.0)


def main():
    t0 = time.time()
    overlap_checks()
    multipole_checks()
    atom_checks()
    molecule_checks()
    print("R1 self-test: %d checks, %d failed, %.1f s" % (NCHECK[0], len(FAIL), time.time() - t0))
    if FAIL:
        print("FAILED: " + "; ".join(FAIL))
        return 1
    return 0


if __name__ == "__main__":
    sys.exit(main())
