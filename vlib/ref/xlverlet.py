"""R2 — dissipative-Verlet reference model for XL-BOMD (property C09).

Published recurrence (Niklasson, Steneteg, Odell, Bock, Challacombe, Tymczak, Holmstrom, Zheng,
Weber, J. Chem. Phys. 130, 214109 (2009), eq. 22 + Table I):

    P(n+1) = 2 P(n) - P(n-1) + kappa * r(n) + alpha * sum_{j=0..K} c_j P(n-j)

with r(n) = D(n) - P(n) for plain XL-BOMD and r(n) = (preconditioned residual, the code's
`dP2dt2`) for the Krylov-subspace variant (Niklasson, JCTC 16, 3628 (2020)).

The table below is typed in here, *not* read from the repository.  There is no network in the
sandbox, so the integers are entered from recollection of the paper's Table I and then
**re-derived** from the table's own defining properties (exact rational arithmetic):

  (i)   sum_j c_j = 0                                   (a constant P is a fixed point),
  (ii)  sum_j c_j j^p = 0 for every odd p <= 2K-5       (the term breaks time reversibility only at
        order dt^(2K-3): the first non-vanishing odd moment is p = 2K-3),
  (iii) c_K = (-1)^K                                    (normalisation of the table),
  (iv)  c_0 = -s(K-2), s(n) = 6 (2n)! / (n! (n+2)!)     (the super-ballot numbers 3,2,3,6,14,36,99,286,858),

which are K+1 independent linear conditions on the K+1 unknowns, plus three redundant check sums
that every row satisfies: c_1 = s(K-1), c_{K-1} = (-1)^(K-1) 2(K-3), sum_j j^2 c_j = -2 s(K-3).
A transcription slip in a typed row therefore cannot survive `validate_table()`.
kappa and alpha are rounded optimisation results and have no closed form; they are validated by
monotonicity in K and by the stability property the paper states for them: for every effective
kappa in (0, kappa_K] all roots of the characteristic polynomial lie in the closed unit disc.

History is a plain python list (newest first) — no circular buffer, no index arithmetic to share
a mistake with the code under test.  numpy only.
"""
from fractions import Fraction
from math import factorial

import numpy as np

# K: (kappa, alpha, [c_0 .. c_K])
TABLE = {
    3: (1.69, 150e-3, [-2, 3, 0, -1]),
    4: (1.75, 57e-3, [-3, 6, -2, -2, 1]),
    5: (1.82, 18e-3, [-6, 14, -8, -3, 4, -1]),
    6: (1.84, 5.5e-3, [-14, 36, -27, -2, 12, -6, 1]),
    7: (1.86, 1.6e-3, [-36, 99, -88, 11, 32, -25, 8, -1]),
    8: (1.88, 0.44e-3, [-99, 286, -286, 78, 78, -90, 42, -10, 1]),
    9: (1.89, 0.12e-3, [-286, 858, -936, 364, 168, -300, 184, -63, 12, -1]),
}
ORDERS = tuple(sorted(TABLE))


def superballot(n):
    """6 (2n)! / (n! (n+2)!)  ->  3, 2, 3, 6, 14, 36, 99, 286, 858, ..."""
    return 6 * factorial(2 * n) // (factorial(n) * factorial(n + 2))


def derive_c(K):
    """Solve conditions (i)-(iv) exactly; -> list of K+1 Fractions."""
    n = K + 1
    rows, rhs = [], []
    rows.append([Fraction(1)] * n)  # (i)
    rhs.append(Fraction(0))
    for p in range(1, 2 * K - 4, 2):  # (ii) odd p = 1, 3, ..., 2K-5
        rows.append([Fraction(j) ** p for j in range(n)])
        rhs.append(Fraction(0))
    e = [Fraction(0)] * n  # (iii)
    e[K] = Fraction(1)
    rows.append(e)
    rhs.append(Fraction((-1) ** K))
    e = [Fraction(0)] * n  # (iv)
    e[0] = Fraction(1)
    rows.append(e)
    rhs.append(Fraction(-superballot(K - 2)))
    assert len(rows) == n
    # Gauss-Jordan in exact arithmetic
    A = [r[:] + [b] for r, b in zip(rows, rhs)]
    for col in range(n):
        piv = next((r for r in range(col, n) if A[r][col] != 0), None)
        if piv is None:
            raise ArithmeticError("defining conditions of the dissipation table are singular for K=%d" % K)
        A[col], A[piv] = A[piv], A[col]
        pv = A[col][col]
        A[col] = [x / pv for x in A[col]]
        for r in range(n):
            if r != col and A[r][col] != 0:
                f = A[r][col]
                A[r] = [x - f * y for x, y in zip(A[r], A[col])]
    return [A[r][n] for r in range(n)]


def history_coefficients(K, kappa_eff):
    """Published coefficients of P(n), P(n-1), ..., P(n-K) for effective kappa `kappa_eff`:
    [2 - kappa_eff + alpha c_0, alpha c_1 - 1, alpha c_2, ..., alpha c_K]."""
    _, alpha, c = TABLE[K]
    a = [alpha * float(cj) for cj in c]
    a[0] += 2.0 - kappa_eff
    a[1] -= 1.0
    return a


def companion_roots(a_hist):
    """Roots of  lambda^m - sum_j a_hist[j] lambda^(m-1-j)  via an explicitly built companion
    matrix (x(n+1) = sum_j a_j x(n-j))."""
    a = np.asarray(a_hist, float)
    m = len(a)
    C = np.zeros((m, m))
    C[0, :] = a
    for i in range(1, m):
        C[i, i - 1] = 1.0
    return np.linalg.eigvals(C)


def response_roots(a_hist, a_D, gamma):
    """Characteristic roots under the linear response D(n) - P* = (1-gamma) (P(n) - P*), i.e.
    D - P = -gamma (P - P*):  x(n+1) = [a_0 + a_D (1-gamma)] x(n) + sum_{j>=1} a_j x(n-j)."""
    a = np.array(a_hist, float)
    a[0] += a_D * (1.0 - gamma)
    return companion_roots(a)


def max_root_modulus(a_hist, a_D, gammas):
    """largest root modulus over the gamma grid.  Non-finite coefficients give (NaN, None) instead of an exception
    or a silently dropped comparison, so that a caller judging `modulus <= 1 + tol` is violated by them."""
    if not (np.all(np.isfinite(np.asarray(a_hist, float))) and np.isfinite(float(a_D))):
        return float("nan"), None
    worst, at = 0.0, None
    for g in gammas:
        r = float(np.abs(response_roots(a_hist, a_D, g)).max())
        if r > worst or r != r:
            worst, at = r, float(g)
    return worst, at


def gamma_grid(n=200):
    """n points covering (0, 1]: i/n, i = 1..n."""
    return [(i + 1) / float(n) for i in range(n)]


class Verlet:
    """Naive dissipative Verlet with the published table.  `H[0]` is P(n), `H[j]` is P(n-j);
    before the start every P(n-j) equals P(0), as in the paper and in the package's `initialize`."""

    def __init__(self, K, P0, kappa_eff=None):
        self.K = K
        self.kappa_table, self.alpha, self.c = TABLE[K]
        self.kappa = self.kappa_table if kappa_eff is None else float(kappa_eff)
        self.H = [np.array(P0, float).copy() for _ in range(K + 1)]

    @property
    def P(self):
        return self.H[0]

    def step(self, D=None, W=None):
        """advance one step with residual r = D - P(n) (plain) or r = W (Krylov variant)."""
        r = (np.asarray(D, float) - self.H[0]) if W is None else np.asarray(W, float)
        new = 2.0 * self.H[0] - self.H[1] + self.kappa * r
        diss = np.zeros_like(new)
        for j in range(self.K + 1):
            diss = diss + float(self.c[j]) * self.H[j]
        new = new + self.alpha * diss
        self.H.insert(0, new)
        self.H.pop()
        return new

    def clone(self):
        o = Verlet(self.K, self.H[0], self.kappa)
        o.H = [h.copy() for h in self.H]
        return o


def impulse_to_coefficients(h):
    """Given the scalar impulse response h[0], h[1], ... of a linear recurrence
    x(n+1) = a_D u(n) + sum_j a_j x(n-j) to a unit impulse u (h[t] = x at t+1 steps after the impulse,
    system at rest before), return (a_D, [a_0, a_1, ...]) by triangular deconvolution:
    h[0] = a_D,  h[t+1] = sum_{j<=t} a_j h[t-j]."""
    h = [float(x) for x in h]
    aD = h[0]
    a = []
    for t in range(len(h) - 1):
        s = h[t + 1]
        for j in range(t):
            s -= a[j] * h[t - j]
        a.append(s / h[0])
    return aD, a


def validate_table(root_tol=1e-9, ngrid=400):
    """Check the typed table against its defining properties.  -> dict of facts; raises
    AssertionError naming the property that fails."""
    facts = {}
    prev_kappa, prev_alpha = 0.0, 9.0
    for K in ORDERS:
        kappa, alpha, c = TABLE[K]
        assert len(c) == K + 1, "K=%d: row has %d entries" % (K, len(c))
        assert sum(c) == 0, "K=%d: sum c_j = %d != 0" % (K, sum(c))
        for p in range(1, 2 * K - 4, 2):
            mom = sum(cj * j ** p for j, cj in enumerate(c))
            assert mom == 0, "K=%d: odd moment p=%d is %d" % (K, p, mom)
        lead = sum(cj * j ** (2 * K - 3) for j, cj in enumerate(c))
        assert lead != 0, "K=%d: moment p=2K-3 vanishes (no dissipation at the stated order)" % K
        assert c[K] == (-1) ** K, "K=%d: c_K" % K
        assert c[0] == -superballot(K - 2), "K=%d: c_0" % K
        d = derive_c(K)
        assert all(x.denominator == 1 for x in d), "K=%d: derived row not integral" % K
        assert [int(x) for x in d] == list(c), "K=%d: typed row %r != derived row %r" % (K, c, [int(x) for x in d])
        assert c[1] == superballot(K - 1), "K=%d: checksum c_1" % K
        assert c[K - 1] == (-1) ** (K - 1) * 2 * (K - 3), "K=%d: checksum c_{K-1}" % K
        assert sum(cj * j * j for j, cj in enumerate(c)) == -2 * superballot(K - 3), "K=%d: checksum second moment" % K
        assert 1.5 < kappa < 2.0 and kappa > prev_kappa, "K=%d: kappa not increasing in (1.5, 2)" % K
        assert 0.0 < alpha < prev_alpha, "K=%d: alpha not decreasing" % K
        prev_kappa, prev_alpha = kappa, alpha
        # stability for every effective kappa in (0, kappa_K]
        worst, at = max_root_modulus(history_coefficients(K, kappa), kappa, gamma_grid(ngrid))
        assert worst <= 1.0 + root_tol, "K=%d: root modulus %.12f at gamma=%g" % (K, worst, at)
        # strict damping of the fastest mode (gamma = 1): that is what the dissipation is for
        fast = float(np.abs(response_roots(history_coefficients(K, kappa), kappa, 1.0)).max())
        assert fast < 1.0 - 1e-3, "K=%d: no damping at gamma=1 (|lambda| = %.6f)" % (K, fast)
        facts[K] = {"max_root_modulus": worst, "at_gamma": at, "modulus_at_gamma_1": fast,
                    "leading_odd_moment": lead}
    return facts


def selftest():
    """closed-form self-tests of this module (used by `python -m vlib.ref.xlverlet`)."""
    facts = validate_table()
    # 1. a constant is a fixed point of the reference for every K, to round-off
    g = np.random.default_rng(1)
    for K in ORDERS:
        X = g.normal(size=(4, 4))
        X = X + X.T
        v = Verlet(K, X, 0.95 * TABLE[K][0])
        for _ in range(5 * (K + 1)):
            v.step(D=X)
        assert np.abs(v.P - X).max() < 1e-13, "fixed point K=%d" % K
    # 2. without dissipation and with r = -omega^2 dt^2 x the recurrence is plain Verlet: x(n) = cos(n theta)
    #    with cos(theta) = 1 - kappa/2 when started from x(-1) = cos(theta), x(0) = 1  (closed form)
    kap = 0.3
    th = np.arccos(1 - kap / 2)
    x0, x1 = np.cos(-th), 1.0
    xs = [x0, x1]
    for n in range(50):
        xs.append(2 * xs[-1] - xs[-2] - kap * xs[-1])
    assert abs(xs[-1] - np.cos(50 * th)) < 1e-12
    # 3. deconvolution recovers the coefficients of a known recurrence
    for K in ORDERS:
        a = history_coefficients(K, 0.95 * TABLE[K][0])
        aD = 0.95 * TABLE[K][0]
        x = [0.0] * (K + 1)  # newest first
        h = []
        u = 1.0
        for t in range(3 * (K + 1)):
            new = aD * u + sum(a[j] * x[j] for j in range(K + 1))
            u = 0.0
            x.insert(0, new)
            x.pop()
            h.append(new)
        aD2, a2 = impulse_to_coefficients(h)
        assert abs(aD2 - aD) < 1e-14
        assert max(abs(p - q) for p, q in zip(a2[:K + 1], a)) < 1e-12, "deconvolution K=%d" % K
        assert max(abs(p) for p in a2[K + 1:]) < 1e-12, "deconvolution tail K=%d" % K
    # 4. companion roots reproduce a polynomial with known roots
    r = np.sort(np.abs(companion_roots([0.5 + 0.25, -0.5 * 0.25])))  # (l-0.5)(l-0.25)
    assert abs(r[0] - 0.25) < 1e-14 and abs(r[1] - 0.5) < 1e-14
    return facts


if __name__ == "__main__":
    f = selftest()
    for K in ORDERS:
        print("R2 K=%d ok: max|lambda| over (0,kappa] = 1%+.1e (gamma=%g), |lambda|(gamma=1) = %.4f" % (
            K, f[K]["max_root_modulus"] - 1.0, f[K]["at_gamma"], f[K]["modulus_at_gamma_1"]))
    print("R2 self-test passed")
