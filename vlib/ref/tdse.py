"""R3 - exact electronic propagator and closed-form velocity-rescaling roots (reference model for C17).

Written from the published equations, numpy/scipy only, no import of the repository.

Electronic equation of motion in the adiabatic basis (Tully 1990, eq. 8, real couplings):

    du_i/dt = -(i/hbar) E_i(t) u_i - sum_j D_ij(t) u_j ,       D real antisymmetric,

i.e. du/dt = A(t) u with A(t) = -(i E(t)/hbar + D(t)) anti-Hermitian for every t, so the exact flow is
unitary.  Over one nuclear step [0, dt] both E and D are *linear* in t (piecewise-linear interpolation
between the values at the two ends of the step) - that is the model the property describes.

`propagate` integrates this with the fourth-order Magnus expansion on a uniform fine grid of `nfine`
intervals.  For A(t) = A_mid + (t - t_mid) A' (exactly linear on every interval) the expansion is

    Omega = h A_mid + (h^3 / 12) [A', A_mid] + O(h^5),          u(t+h) = expm(Omega) u(t),

(the double-integral term of the Magnus series evaluated in closed form for a linear generator; it is
the same thing as the two-point Gauss-Legendre formula).  Omega is anti-Hermitian (a commutator of
anti-Hermitian matrices is anti-Hermitian), so every factor is unitary to round-off.  All exponentials of
a step are taken by ONE batched `scipy.linalg.expm` call.  With `order=2` the commutator is dropped
(exponential midpoint rule) - used by the self-test to confirm the convergence orders 2 and 4.

Closed forms: `rabi_population` (two states, constant E and D) is what `selftest` checks `propagate`
against; `rescale_roots` returns the two roots of the energy-conserving velocity adjustment

    v_a' = v_a + alpha d_a / m_a   =>   (1/2) (sum_a |d_a|^2/m_a) alpha^2 + (v.d) alpha + dE/K = 0

(K converts amu (A/fs)^2 to eV) in the cancellation-free form q = -(b + sgn(b) sqrt(disc))/2.
"""
import math

import numpy as np
from scipy.linalg import expm

HBAR_EV_FS = 0.6582119569  # CODATA 2018, eV fs
AMU_A2_FS2_IN_EV = 1.66053906660e-27 * 1.0e10 / 1.602176634e-19  # amu (A/fs)^2 -> eV  (= 103.6426965...)


def generator(E, D, hbar=HBAR_EV_FS):
    """A = -(i diag(E)/hbar + D) for arrays E[..., n], D[..., n, n]."""
    E = np.asarray(E, float)
    D = np.asarray(D, float)
    n = E.shape[-1]
    A = -D.astype(complex)
    idx = np.arange(n)
    A[..., idx, idx] = A[..., idx, idx] - 1j * E / hbar
    return A


def propagate(u0, E0, E1, D0, D1, dt, nfine, hbar=HBAR_EV_FS, order=4, return_path=False):
    """Propagate amplitudes u0[n] (complex) over one nuclear step of length dt.

    E0, E1: state energies (eV) at the start / end of the step; D0, D1: real antisymmetric
    time-derivative couplings (1/fs) at the start / end.  nfine: number of uniform intervals.
    Returns u(dt) (and the whole path [nfine+1, n] when return_path)."""
    u = np.asarray(u0, complex).copy()
    E0 = np.asarray(E0, float)
    E1 = np.asarray(E1, float)
    D0 = np.asarray(D0, float)
    D1 = np.asarray(D1, float)
    nfine = int(nfine)
    h = dt / nfine
    tmid = (np.arange(nfine) + 0.5) / nfine  # in units of dt
    Emid = E0[None, :] + tmid[:, None] * (E1 - E0)[None, :]
    Dmid = D0[None, :, :] + tmid[:, None, None] * (D1 - D0)[None, :, :]
    Amid = generator(Emid, Dmid, hbar)  # [nfine, n, n]
    Om = h * Amid
    if order == 4:
        Adot = generator((E1 - E0) / dt, (D1 - D0) / dt, hbar)  # dA/dt, constant over the step
        Om = Om + (h ** 3 / 12.0) * (Adot[None] @ Amid - Amid @ Adot[None])
    elif order != 2:
        raise ValueError("order must be 2 or 4")
    U = expm(Om)  # batched
    path = [u.copy()] if return_path else None
    for k in range(nfine):
        u = U[k] @ u
        if return_path:
            path.append(u.copy())
    if return_path:
        return u, np.array(path)
    return u


def rabi_population(e1, e2, d, t, hbar=HBAR_EV_FS):
    """Population of state 2 at time t starting in state 1, constant energies e1, e2 (eV) and constant
    coupling D = [[0, d], [-d, 0]] (1/fs):  P2 = d^2/W^2 sin^2(W t),  W^2 = ((e2-e1)/(2 hbar))^2 + d^2."""
    w2 = ((e2 - e1) / (2.0 * hbar)) ** 2 + d * d
    if w2 == 0.0:
        return 0.0
    w = math.sqrt(w2)
    return d * d / w2 * math.sin(w * t) ** 2


def fewest_switches(u, D, dt):
    """Tully's fewest-switches probabilities out of every state i over a step dt, from the amplitudes u
    and the coupling D at the end of the step:  d|u_i|^2/dt = -2 sum_j D_ij Re(u_i^* u_j)  =>
    g_ij = max(0, 2 dt D_ij Re(u_i^* u_j) / |u_i|^2), rows rescaled to sum 1 where they exceed it."""
    u = np.asarray(u, complex)
    D = np.asarray(D, float)
    rho = np.real(np.conj(u)[:, None] * u[None, :])
    g = 2.0 * dt * D * rho / np.maximum(np.abs(u) ** 2, 1e-300)[:, None]
    np.fill_diagonal(g, 0.0)
    g = np.maximum(g, 0.0)
    s = g.sum(axis=1, keepdims=True)
    return np.where(s > 1.0, g / np.maximum(s, 1e-300), g)


def rescale_roots(v_dot_d, d2_by_m, c):
    """Roots of (1/2) d2_by_m alpha^2 + v_dot_d alpha + c = 0 with c = dE / K.

    -> (disc, alpha_small, alpha_large) ordered by modulus; (disc, None, None) when disc < 0.
    disc = v_dot_d^2 - 2 c d2_by_m.  At the tie v_dot_d = 0 the two roots are +-sqrt(disc)/d2_by_m."""
    a = 0.5 * float(d2_by_m)
    b = float(v_dot_d)
    c = float(c)
    disc = b * b - 4.0 * a * c
    if disc < 0.0 or a <= 0.0:
        return disc, None, None
    s = math.sqrt(disc)
    if b == 0.0:
        r = s / (2.0 * a)
        return disc, r, -r
    q = -0.5 * (b + math.copysign(s, b))
    large = q / a
    small = c / q
    if abs(small) > abs(large):
        small, large = large, small
    return disc, small, large


def selftest(verbose=False):
    """Closed-form and convergence-order checks of this module.  Raises AssertionError on failure."""
    out = {}
    # 1. Rabi closed form, several detunings / couplings
    worst = 0.0
    for (e1, e2, d, T) in [(0.0, 0.0, 0.7, 1.3), (0.0, 0.5, 0.7, 2.0), (0.1, 3.0, 5.0, 0.4), (1.0, 1.0001, 40.0, 0.1),
                           (0.0, 5.0, 0.05, 3.0)]:
        D = np.array([[0.0, d], [-d, 0.0]])
        E = np.array([e1, e2])
        u = propagate([1.0, 0.0], E, E, D, D, T, 64)
        worst = max(worst, abs(abs(u[1]) ** 2 - rabi_population(e1, e2, d, T)), abs(np.vdot(u, u).real - 1.0))
    out["rabi_worst"] = worst
    assert worst < 1e-12, worst
    # 2. time-dependent generator: orders 2 and 4, unitarity, agreement of both at fine grid
    g = np.random.default_rng(12345)
    n = 5
    E0 = np.sort(g.uniform(0, 3, n))
    E1 = E0 + g.normal(0, 0.5, n)
    M0 = g.normal(0, 3, (n, n))
    M1 = g.normal(0, 3, (n, n))
    D0 = M0 - M0.T
    D1 = M1 - M1.T
    u0 = g.normal(size=n) + 1j * g.normal(size=n)
    u0 /= np.linalg.norm(u0)
    ref = propagate(u0, E0, E1, D0, D1, 0.5, 8192, order=4)
    e4 = [np.linalg.norm(propagate(u0, E0, E1, D0, D1, 0.5, m, order=4) - ref) for m in (16, 32, 64)]
    e2 = [np.linalg.norm(propagate(u0, E0, E1, D0, D1, 0.5, m, order=2) - ref) for m in (16, 32, 64)]
    out["order4_ratios"] = [e4[0] / e4[1], e4[1] / e4[2]]
    out["order2_ratios"] = [e2[0] / e2[1], e2[1] / e2[2]]
    assert 12.0 < out["order4_ratios"][1] < 20.0, out
    assert 3.5 < out["order2_ratios"][1] < 4.5, out
    ref2 = propagate(u0, E0, E1, D0, D1, 0.5, 65536, order=2)
    out["magnus2_vs_4_fine"] = float(np.linalg.norm(ref2 - ref))
    assert out["magnus2_vs_4_fine"] < 1e-8, out
    assert abs(np.vdot(ref, ref).real - 1.0) < 1e-12
    # 3. fewest switches: rows in [0,1], sum <= 1, reproduces the population balance to first order
    gfs = fewest_switches(ref, D1 * 50, 0.5)
    assert gfs.min() >= 0 and gfs.sum(axis=1).max() <= 1 + 1e-12 and np.all(np.diag(gfs) == 0)
    # 4. quadratic roots
    for (b, a2, c) in [(0.3, 2.0, -0.1), (-0.3, 2.0, -0.1), (0.3, 2.0, 0.01), (0.0, 2.0, -0.1), (1e-9, 1.0, -1e-30)]:
        disc, s, l = rescale_roots(b, a2, c)
        for r in (s, l):
            res = 0.5 * a2 * r * r + b * r + c
            assert abs(res) <= 1e-14 * (abs(0.5 * a2 * r * r) + abs(b * r) + abs(c)) + 1e-300, (b, a2, c, r, res)
        assert abs(s) <= abs(l)
    assert rescale_roots(0.1, 2.0, 1.0)[1] is None
    assert abs(AMU_A2_FS2_IN_EV - 103.6427) < 1e-3
    if verbose:
        print("tdse selftest ok", out)
    return out


if __name__ == "__main__":
    selftest(verbose=True)
