"""R1 -- independent NDDO reference evaluator (MNDO / AM1 / PM3, s and sp shells, Z <= 18).

Written from the published equations, numpy/scipy only:

* M.J.S. Dewar, W. Thiel, Theor. Chim. Acta 46 (1977) 89 -- two-centre ERIs as interactions of point-charge
  multipoles with Klopman-Ohno additive terms; J. Am. Chem. Soc. 99 (1977) 4899 -- MNDO core terms, N-H / O-H form.
* Dewar, Zoebisch, Healy, Stewart, JACS 107 (1985) 3902 (AM1 Gaussians); Stewart, J. Comput. Chem. 10 (1989) 209 (PM3).
* Slater-type orbitals, overlaps by Gauss-Laguerre x Gauss-Legendre quadrature in prolate spheroidal coordinates.

Nothing here is taken from the repository's code; only its shipped parameter tables (CSV) are read.
Deliberate implementation choices that differ from the package (so that agreement is evidence for both):
point charges are enumerated literally and summed by one generic kernel; additive terms are obtained by
`brentq` applied to the *same* kernel at R = 0 (the defining self-interaction condition); the local->molecular
transformation is a generic 4-index einsum over an orthonormal frame; Fock matrices are built from a dense
4-index ERI tensor; isolated-atom energies come from Slater-Condon ground-term energies.

Units: energies eV, user coordinates Angstrom, internal lengths bohr with the MOPAC-7 constants below.
"""
import math
import os

import numpy as np
from scipy.optimize import brentq

EV = 27.21          # e^2 in eV * bohr  (MOPAC-7 value used by the package)
A0 = 0.529167       # bohr in Angstrom  (MOPAC-7 value used by the package)
KCAL_PER_EV = 23.061
HPP_FLOOR = 0.1     # eV; MOPAC: hpp = max(0.1, (gpp - gp2)/2) when solving for the quadrupole additive term

METHODS = ("MNDO", "AM1", "PM3")
N_GAUSS = {"MNDO": 0, "AM1": 4, "PM3": 2}

# valence principal quantum number, (n_s, n_p) ground configuration, core charge
_QN = {1: 1, 3: 2, 4: 2, 5: 2, 6: 2, 7: 2, 8: 2, 9: 2, 11: 3, 12: 3, 13: 3, 14: 3, 15: 3, 16: 3, 17: 3}
_CONF = {1: (1, 0), 3: (1, 0), 4: (2, 0), 5: (2, 1), 6: (2, 2), 7: (2, 3), 8: (2, 4), 9: (2, 5),
         11: (1, 0), 12: (2, 0), 13: (2, 1), 14: (2, 2), 15: (2, 3), 16: (2, 4), 17: (2, 5)}
# experimental heats of formation of the gaseous atoms, kcal/mol (MOPAC block data; Dewar's compilations)
EHEAT_KCAL = {1: 52.102, 3: 38.410, 4: 76.960, 5: 135.700, 6: 170.890, 7: 113.000, 8: 59.559, 9: 18.890,
              11: 25.850, 12: 35.000, 13: 79.490, 14: 108.390, 15: 75.570, 16: 66.400, 17: 28.990}
# energy of the Hund ground term of p^n in units of the reduced Slater-Condon F2 (F0 coefficient is n(n-1)/2)
_P_TERM_F2 = {0: 0.0, 1: 0.0, 2: -5.0, 3: -15.0, 4: -15.0, 5: -20.0, 6: -30.0}


# ---------------------------------------------------------------------------------------------------
# parameters
# ---------------------------------------------------------------------------------------------------
def params_dir():
    return os.path.join(os.environ.get("VERIF_REPO", "/repo"), "seqm", "params")


_TABLE_CACHE = {}


def load_table(method, directory=None):
    """-> {Z: {column: float}} from parameters_<method>_MOPAC.csv"""
    directory = directory or params_dir()
    key = (method, directory)
    if key in _TABLE_CACHE:
        return _TABLE_CACHE[key]
    fn = os.path.join(directory, "parameters_%s_MOPAC.csv" % method)
    out = {}
    with open(fn) as f:
        hdr = [h.strip() for h in f.readline().split(",")]
        for line in f:
            t = [x.strip() for x in line.split(",")]
            if len(t) < 3 or not t[0]:
                continue
            d = {}
            for h, x in zip(hdr, t):
                if h in ("N", "sym"):
                    continue
                try:
                    d[h] = float(x)
                except ValueError:
                    d[h] = 0.0
            out[int(t[0])] = d
    _TABLE_CACHE[key] = out
    return out


def elements(method, directory=None):
    tab = load_table(method, directory)
    return [z for z in sorted(tab) if z in _QN and tab[z].get("U_ss", 0.0) != 0.0]


# ---------------------------------------------------------------------------------------------------
# point-charge multipoles
# ---------------------------------------------------------------------------------------------------
# local orbital indices: 0 = s, 1 = p_sigma (along the local axis e0), 2 = p_pi (e1), 3 = p_pi' (e2)
def charge_sets(D1, D2, nao):
    """Point-charge representation of every AO product of one atom.
    -> q[n], pos[n,3] (local frame, relative to the nucleus, bohr), l[n] (multipole order -> which additive term),
       sel[n,nao,nao] (1 where charge n belongs to product (a,b))"""
    q, pos, l, prod = [], [], [], []
    e = np.eye(3)

    def add(a, b, charge, where, order):
        q.append(charge)
        pos.append(np.asarray(where, float))
        l.append(order)
        prod.append((a, b))

    add(0, 0, 1.0, [0, 0, 0], 0)                                   # ss: monopole
    if nao == 4:
        for a in range(3):
            add(0, 1 + a, +0.5, +D1 * e[a], 1)                      # s p_a: dipole
            add(0, 1 + a, -0.5, -D1 * e[a], 1)
            add(1 + a, 1 + a, 1.0, [0, 0, 0], 0)                    # p_a p_a: monopole ...
            add(1 + a, 1 + a, +0.25, +2 * D2 * e[a], 2)            # ... + linear quadrupole
            add(1 + a, 1 + a, -0.50, [0, 0, 0], 2)
            add(1 + a, 1 + a, +0.25, -2 * D2 * e[a], 2)
        for a in range(3):
            for b in range(a + 1, 3):                               # p_a p_b: square quadrupole
                add(1 + a, 1 + b, +0.25, +D2 * (e[a] + e[b]), 2)
                add(1 + a, 1 + b, +0.25, -D2 * (e[a] + e[b]), 2)
                add(1 + a, 1 + b, -0.25, +D2 * (e[a] - e[b]), 2)
                add(1 + a, 1 + b, -0.25, -D2 * (e[a] - e[b]), 2)
    q = np.array(q)
    pos = np.array(pos)
    l = np.array(l, int)
    sel = np.zeros((len(q), nao, nao))
    for n, (a, b) in enumerate(prod):
        sel[n, a, b] = 1.0
        sel[n, b, a] = 1.0
    return q, pos, l, sel


def point_charge_eri(setA, rhoA, setB, rhoB, R):
    """L[a,b,c,d] = e^2 sum_ij q_i q_j / sqrt(r_ij^2 + (rho_l(i)^A + rho_l(j)^B)^2), atom A at the origin, atom B at
    +R on local axis 0; no symmetry-specific formula is used.  R may be an array (leading axis)."""
    qA, pA, lA, sA = setA
    qB, pB, lB, sB = setB
    R = np.asarray(R, float)
    shift = np.zeros(R.shape + (1, 1, 3))
    shift[..., 0] = R[..., None, None]
    d = pA[:, None, :] - (pB[None, :, :] + shift)
    add = (np.asarray(rhoA)[lA][:, None] + np.asarray(rhoB)[lB][None, :]) ** 2
    ker = EV / np.sqrt((d * d).sum(-1) + add)
    return np.einsum("nab,...nm,mcd->...abcd", sA * qA[:, None, None], ker, sB * qB[:, None, None], optimize=True)


def dipole_length(n, zs, zp):
    """D1 = <ns| r cos(theta) |np> for Slater orbitals (closed form)."""
    return (2 * n + 1) * (4 * zs * zp) ** (n + 0.5) / ((zs + zp) ** (2 * n + 2) * math.sqrt(3.0))


def quadrupole_length(n, zp):
    """D2 with 2*D2^2 = <np_z| z^2 - <r^2>/3 ... (Dewar-Thiel): D2 = sqrt((2n+1)(2n+2)/20)/zeta_p."""
    return math.sqrt((2 * n + 1) * (2 * n + 2) / 20.0) / zp


class Atom:
    """Per-element derived quantities for one method."""

    def __init__(self, method, Z, table=None):
        tab = table if table is not None else load_table(method)
        if Z not in tab or Z not in _QN or tab[Z].get("U_ss", 0.0) == 0.0:
            raise KeyError("element %d not parametrised for %s" % (Z, method))
        p = tab[Z]
        self.method, self.Z, self.p = method, Z, p
        self.n = _QN[Z]
        self.ns, self.np_ = _CONF[Z]
        self.core = float(self.ns + self.np_)
        self.nao = 1 if Z == 1 else 4
        self.zs, self.zp = p["zeta_s"], p["zeta_p"]
        self.uss, self.upp = p["U_ss"], p["U_pp"]
        self.bs, self.bp = p["beta_s"], p["beta_p"]
        self.gss, self.gsp, self.gpp, self.gp2, self.hsp = p["g_ss"], p["g_sp"], p["g_pp"], p["g_p2"], p["h_sp"]
        self.alpha = p["alpha"]
        ng = N_GAUSS[method]
        self.gauss = [(p["Gaussian%d_K" % k], p["Gaussian%d_L" % k], p["Gaussian%d_M" % k]) for k in range(1, ng + 1)]
        self.rho0 = 0.5 * EV / self.gss
        if self.nao == 4:
            self.D1 = dipole_length(self.n, self.zs, self.zp)
            self.D2 = quadrupole_length(self.n, self.zp)
            self.hpp = 0.5 * (self.gpp - self.gp2)
            self.hpp_used = max(HPP_FLOOR, self.hpp)
            self.rho1 = self._solve(self.hsp, (0, 1, 0, 1))
            self.rho2 = self._solve(self.hpp_used, (2, 3, 2, 3))
        else:
            self.D1 = self.D2 = 0.0
            self.hpp = self.hpp_used = 0.0
            self.rho1 = self.rho2 = 0.0
        self.rho = np.array([self.rho0, self.rho1, self.rho2])
        self.cs = charge_sets(self.D1, self.D2, self.nao)

    def _solve(self, target, idx):
        """additive term such that the multipole's self-interaction (both centres coincide, both additive terms equal)
        reproduces the one-centre integral `target`."""
        cs = charge_sets(self.D1, self.D2, 4)

        def f(rho):
            r = np.array([rho, rho, rho])
            return point_charge_eri(cs, r, cs, r, 0.0)[idx] - target

        return brentq(f, 1e-8, 1e4, xtol=1e-15, rtol=1e-15, maxiter=500)

    def beta(self):
        return np.array([self.bs] + [self.bp] * 3)[: self.nao]

    def uorb(self):
        return np.array([self.uss] + [self.upp] * 3)[: self.nao]

    # one-centre two-electron integrals as a dense tensor g[a,b,c,d] = (ab|cd)
    def one_centre_eri(self):
        n = self.nao
        g = np.zeros((n, n, n, n))
        g[0, 0, 0, 0] = self.gss
        if n == 4:
            hpp = 0.5 * (self.gpp - self.gp2)
            for a in (1, 2, 3):
                g[0, 0, a, a] = g[a, a, 0, 0] = self.gsp
                g[0, a, 0, a] = g[0, a, a, 0] = g[a, 0, 0, a] = g[a, 0, a, 0] = self.hsp
                g[a, a, a, a] = self.gpp
                for b in (1, 2, 3):
                    if b != a:
                        g[a, a, b, b] = self.gp2
                        g[a, b, a, b] = g[a, b, b, a] = hpp
        return g

    def eisol(self):
        """electronic energy of the isolated atom in its Hund ground term (single configuration)."""
        ns, npp = self.ns, self.np_
        e = ns * self.uss + npp * self.upp
        if ns == 2:
            e += self.gss
        e += ns * npp * (self.gsp - 0.5 * self.hsp)
        f0 = (self.gpp + 2.0 * self.gp2) / 3.0
        f2 = (self.gpp - self.gp2) / 6.0
        e += 0.5 * npp * (npp - 1) * f0 + _P_TERM_F2[npp] * f2
        return e

    def eheat(self):
        return EHEAT_KCAL[self.Z] / KCAL_PER_EV


_ATOM_CACHE = {}


def atom(method, Z):
    key = (method, Z, params_dir())
    if key not in _ATOM_CACHE:
        _ATOM_CACHE[key] = Atom(method, Z)
    return _ATOM_CACHE[key]


# ---------------------------------------------------------------------------------------------------
# frames
# ---------------------------------------------------------------------------------------------------
def frame(v, spin=0.0):
    """orthonormal frame (rows e0,e1,e2) with e0 = v/|v|; `spin` rotates e1,e2 about e0 (results must not depend on it)."""
    e0 = np.asarray(v, float)
    e0 = e0 / np.linalg.norm(e0)
    h = np.eye(3)[int(np.argmin(np.abs(e0)))]
    e1 = h - (h @ e0) * e0
    e1 /= np.linalg.norm(e1)
    e2 = np.cross(e0, e1)
    if spin:
        c, s = math.cos(spin), math.sin(spin)
        e1, e2 = c * e1 + s * e2, -s * e1 + c * e2
    return np.array([e0, e1, e2])


def ao_transform(E, nao):
    """T[a,k]: local orbital a = sum_k T[a,k] * molecular orbital k (s, px, py, pz)."""
    T = np.zeros((nao, nao))
    T[0, 0] = 1.0
    if nao == 4:
        T[1:, 1:] = E
    return T


# ---------------------------------------------------------------------------------------------------
# two-centre two-electron integrals
# ---------------------------------------------------------------------------------------------------
def eri_local(A, B, R):
    """(ab|cd) in the diatomic frame, a,b on A (origin), c,d on B (+R on the local axis); both p_sigma point A->B."""
    L = point_charge_eri(A.cs, A.rho, B.cs, B.rho, R)
    if A.nao == 4 and B.nao == 4:
        v = 0.5 * (L[..., 2, 2, 2, 2] - L[..., 2, 2, 3, 3])       # MNDO convention for (pi pi'|pi pi')
        for a, b in ((2, 3), (3, 2)):
            for c, d in ((2, 3), (3, 2)):
                L[..., a, b, c, d] = v
    return L


def eri_pair(A, B, xA, xB, spin=0.0):
    """W[k,l,m,n] = (kl|mn) in the molecular frame, k,l on A, m,n on B; coordinates in Angstrom."""
    v = (np.asarray(xB, float) - np.asarray(xA, float)) / A0
    R = float(np.linalg.norm(v))
    E = frame(v, spin)
    L = eri_local(A, B, R)
    TA, TB = ao_transform(E, A.nao), ao_transform(E, B.nao)
    return np.einsum("ak,bl,cm,dn,abcd->klmn", TA, TA, TB, TB, L, optimize=True)


PACK = [(0, 0), (1, 0), (1, 1), (2, 0), (2, 1), (2, 2), (3, 0), (3, 1), (3, 2), (3, 3)]


def pack10(W):
    """4-index pair tensor -> the package's 10x10 layout (ss, xs, xx, ys, yx, yy, zs, zx, zy, zz); missing p -> 0."""
    out = np.zeros((10, 10))
    na, nb = W.shape[0], W.shape[2]
    for I, (k, l) in enumerate(PACK):
        if k >= na:
            continue
        for J, (m, n) in enumerate(PACK):
            if m >= nb:
                continue
            out[I, J] = W[k, l, m, n]
    return out


# ---------------------------------------------------------------------------------------------------
# Slater overlaps
# ---------------------------------------------------------------------------------------------------
_QUAD = {}


def _quad(nl, ne):
    if (nl, ne) not in _QUAD:
        _QUAD[(nl, ne)] = np.polynomial.laguerre.laggauss(nl) + np.polynomial.legendre.leggauss(ne)
    return _QUAD[(nl, ne)]


def _norm(n, z):
    return (2.0 * z) ** (n + 0.5) / math.sqrt(math.factorial(2 * n))


def overlap_local(nA, zsA, zpA, naoA, nB, zsB, zpB, naoB, R, nl=40, ne=160):
    """S[a,b] = <chi_a^A | chi_b^B>, A at the origin, B at +R on the local axis, both p_sigma along A->B.
    chi = N r^(n-1) exp(-zeta r) Y, real harmonics.  Prolate spheroidal coordinates:
    xi = (rA+rB)/R = 1 + t/a (Gauss-Laguerre in t), eta = (rA-rB)/R (Gauss-Legendre), dV = (R/2)^3 (xi^2-eta^2)."""
    t, wt, eta, we = _quad(nl, ne)
    S = np.zeros((naoA, naoB))
    h = 0.5 * R
    ET = eta[None, :]

    def integral(zA, zB, kind):
        a = h * (zA + zB)
        b = h * (zA - zB)
        XI = 1.0 + t[:, None] / a
        rA = h * (XI + ET)
        rB = h * (XI - ET)
        zcA = h * (1.0 + XI * ET)          # rA cos(thetaA)
        zcB = h * (XI * ET - 1.0)          # rB cos(thetaB)   (same axis direction A->B)
        rho2 = h * h * (XI * XI - 1.0) * (1.0 - ET * ET)   # (rA sin thetaA)(rB sin thetaB)
        if kind == "ss":
            f = 0.5 * rA ** (nA - 1) * rB ** (nB - 1)
        elif kind == "sp":   # s on A, p_sigma on B
            f = 0.5 * math.sqrt(3.0) * rA ** (nA - 1) * rB ** (nB - 2) * zcB
        elif kind == "ps":
            f = 0.5 * math.sqrt(3.0) * rA ** (nA - 2) * zcA * rB ** (nB - 1)
        elif kind == "pp_sigma":
            f = 1.5 * rA ** (nA - 2) * zcA * rB ** (nB - 2) * zcB
        else:                # pp_pi
            f = 0.75 * rA ** (nA - 2) * rB ** (nB - 2) * rho2
        f = f * h ** 3 * (XI * XI - ET * ET) * np.exp(-b * ET)
        val = (wt[:, None] * we[None, :] * f).sum() * math.exp(-a) / a
        return _norm(nA, zA) * _norm(nB, zB) * val

    S[0, 0] = integral(zsA, zsB, "ss")
    if naoB == 4:
        S[0, 1] = integral(zsA, zpB, "sp")
    if naoA == 4:
        S[1, 0] = integral(zpA, zsB, "ps")
    if naoA == 4 and naoB == 4:
        S[1, 1] = integral(zpA, zpB, "pp_sigma")
        S[2, 2] = S[3, 3] = integral(zpA, zpB, "pp_pi")
    return S


def overlap_pair(A, B, xA, xB, spin=0.0):
    v = (np.asarray(xB, float) - np.asarray(xA, float)) / A0
    R = float(np.linalg.norm(v))
    E = frame(v, spin)
    S = overlap_local(A.n, A.zs, A.zp, A.nao, B.n, B.zs, B.zp, B.nao, R)
    return ao_transform(E, A.nao).T @ S @ ao_transform(E, B.nao)


# ---------------------------------------------------------------------------------------------------
# core-core repulsion
# ---------------------------------------------------------------------------------------------------
def core_core(method, A, B, R_bohr, info=None):
    """pair core-core energy (eV).  MNDO: Z_A Z_B (sAsA|sBsB) [1 + f_A + f_B], f_X = exp(-alpha_X R), except that for
    N-H and O-H pairs the term of the N/O atom is R * exp(-alpha_X R) (R in Angstrom); AM1/PM3 add
    Z_A Z_B / R * sum_k [K_kA exp(-L_kA (R - M_kA)^2) + K_kB exp(-L_kB (R - M_kB)^2)]."""
    R = R_bohr * A0
    gam = EV / math.sqrt(R_bohr ** 2 + (A.rho0 + B.rho0) ** 2)
    fA = math.exp(-A.alpha * R)
    fB = math.exp(-B.alpha * R)
    special = None
    if B.Z == 1 and A.Z in (7, 8):
        fA *= R
        special = "NH" if A.Z == 7 else "OH"
    elif A.Z == 1 and B.Z in (7, 8):
        fB *= R
        special = "NH" if B.Z == 7 else "OH"
    e = A.core * B.core * gam * (1.0 + fA + fB)
    ng = 0
    if method in ("AM1", "PM3"):
        s = 0.0
        for X in (A, B):
            for K, Lk, M in X.gauss:
                if K != 0.0:
                    ng += 1
                    s += K * math.exp(-Lk * (R - M) ** 2)
        e += A.core * B.core / R * s
    if info is not None:
        info["special"] = special
        info["n_gauss"] = ng
    return e


# ---------------------------------------------------------------------------------------------------
# diatomic quantities in the package's storage conventions (pair level of C06)
# ---------------------------------------------------------------------------------------------------
def pair_blocks(method, Zi, Zj, xi, xj, spin=0.0):
    """everything `hcore` / `pair_nuclear_energy` produce for the pair (i listed first):
    w10 (10x10 packed), res (resonance block, i rows / j cols), Vi (attraction of i's electrons by core j: nao_i x nao_i),
    Vj, S (overlap block), enuc, info"""
    A, B = atom(method, Zi), atom(method, Zj)
    W = eri_pair(A, B, xi, xj, spin)
    S = overlap_pair(A, B, xi, xj, spin)
    res = S * 0.5 * (A.beta()[:, None] + B.beta()[None, :])
    Vi = -B.core * W[:, :, 0, 0]
    Vj = -A.core * W[0, 0, :, :]
    info = {}
    R = float(np.linalg.norm(np.asarray(xj, float) - np.asarray(xi, float))) / A0
    en = core_core(method, A, B, R, info)
    return {"W": W, "w10": pack10(W), "S": S, "res": res, "Vi": Vi, "Vj": Vj, "enuc": en, "info": info, "A": A, "B": B}


# ---------------------------------------------------------------------------------------------------
# molecule
# ---------------------------------------------------------------------------------------------------
class Model:
    """NDDO model of one molecule: one-electron matrix, dense ERIs, Fock builds, energies."""

    def __init__(self, method, Z, X, spin=0.0):
        if method not in METHODS:
            raise ValueError(method)
        self.method = method
        self.Z = [int(z) for z in Z]
        self.X = np.asarray(X, float)
        self.atoms = [atom(method, z) for z in self.Z]
        self.off = np.concatenate([[0], np.cumsum([a.nao for a in self.atoms])]).astype(int)
        self.nao = int(self.off[-1])
        n = self.nao
        H = np.zeros((n, n))
        S = np.eye(n)
        eri = np.zeros((n, n, n, n))
        self.enuc_pairs = {}
        self.cc_info = {}
        nat = len(self.Z)
        for i, a in enumerate(self.atoms):
            s = slice(self.off[i], self.off[i + 1])
            H[s, s] += np.diag(a.uorb())
            eri[s, s, s, s] = a.one_centre_eri()
        for i in range(nat):
            A = self.atoms[i]
            si = slice(self.off[i], self.off[i + 1])
            for j in range(i + 1, nat):
                B = self.atoms[j]
                sj = slice(self.off[j], self.off[j + 1])
                W = eri_pair(A, B, self.X[i], self.X[j], spin)
                eri[si, si, sj, sj] = W
                eri[sj, sj, si, si] = W.transpose(2, 3, 0, 1)
                H[si, si] -= B.core * W[:, :, 0, 0]
                H[sj, sj] -= A.core * W[0, 0, :, :]
                Sij = overlap_pair(A, B, self.X[i], self.X[j], spin)
                S[si, sj] = Sij
                S[sj, si] = Sij.T
                res = Sij * 0.5 * (A.beta()[:, None] + B.beta()[None, :])
                H[si, sj] = res
                H[sj, si] = res.T
                info = {}
                R = float(np.linalg.norm(self.X[j] - self.X[i])) / A0
                self.enuc_pairs[(i, j)] = core_core(method, A, B, R, info)
                self.cc_info[(i, j)] = info
        self.H, self.S, self.eri = H, S, eri
        self.enuc = float(sum(self.enuc_pairs.values()))
        self.eiso = np.array([a.eisol() for a in self.atoms])
        self.eiso_sum = float(self.eiso.sum())
        self.eheat_sum = float(sum(a.eheat() for a in self.atoms))
        self.n_valence = float(sum(a.core for a in self.atoms))

    # --- two-electron operators (P may be non-symmetric) -------------------------------------------
    def J(self, P):
        return np.einsum("mnls,ls->mn", self.eri, P, optimize=True)

    def K(self, P):
        """K[m,n] = sum_ls (m l | n s) P[l,s]"""
        return np.einsum("mlns,ls->mn", self.eri, P, optimize=True)

    def G(self, P):
        """closed-shell two-electron operator J(P) - K(P)/2, P = total density (or a response / transition density)."""
        return self.J(P) - 0.5 * self.K(P)

    def fock_rhf(self, P):
        return self.H + self.G(P)

    def fock_uhf(self, Pa, Pb):
        Jt = self.J(Pa + Pb)
        return self.H + Jt - self.K(Pa), self.H + Jt - self.K(Pb)

    def eelec_rhf(self, P):
        return 0.5 * float(np.sum(P * (self.H + self.fock_rhf(P))))

    def eelec_uhf(self, Pa, Pb):
        Fa, Fb = self.fock_uhf(Pa, Pb)
        return 0.5 * float(np.sum((Pa + Pb) * self.H + Pa * Fa + Pb * Fb))

    def etot(self, eelec):
        return eelec + self.enuc

    def heat(self, etot):
        """heat of formation in eV: Etot - sum Eiso + sum (experimental atomic heats)"""
        return etot - self.eiso_sum + self.eheat_sum

    # --- dense CIS helper (singlets): A[ia,jb] = d_ij d_ab (e_a - e_i) + 2 (ia|jb) - (ij|ab) -----------
    def cis_sigma(self, Cocc, Cvir, eo, ev, X):
        """(A X)[i,a] for singlet CIS with orbitals C (AO x MO) from the dense MO-transformed ERIs."""
        iajb = np.einsum("mi,na,mnls,lj,sb->iajb", Cocc, Cvir, self.eri, Cocc, Cvir, optimize=True)
        ijab = np.einsum("mi,nj,mnls,la,sb->ijab", Cocc, Cocc, self.eri, Cvir, Cvir, optimize=True)
        out = 2.0 * np.einsum("iajb,jb->ia", iajb, X) - np.einsum("ijab,jb->ia", ijab, X)
        return out + (ev[None, :] - eo[:, None]) * X

    def rpa_b_sigma(self, Cocc, Cvir, X):
        """(B X)[i,a] with B[ia,jb] = 2 (ia|jb) - (ib|ja) (singlet RPA coupling block)."""
        iajb = np.einsum("mi,na,mnls,lj,sb->iajb", Cocc, Cvir, self.eri, Cocc, Cvir, optimize=True)
        ibja = np.einsum("mi,nb,mnls,lj,sa->ibja", Cocc, Cvir, self.eri, Cocc, Cvir, optimize=True)
        return 2.0 * np.einsum("iajb,jb->ia", iajb, X) - np.einsum("ibja,jb->ia", ibja, X)

    # --- mapping to the package's padded layout (4 slots per atom position, H uses the first) ---------
    def slots(self, molsize=None, positions=None):
        """indices into a 4*molsize padded AO axis for each compact AO; positions[i] = atom slot of atom i"""
        positions = list(range(len(self.Z))) if positions is None else positions
        idx = []
        for i, a in enumerate(self.atoms):
            idx += [4 * positions[i] + k for k in range(a.nao)]
        return np.array(idx, int)

    def embed(self, Mx, molsize):
        idx = self.slots()
        out = np.zeros((4 * molsize, 4 * molsize))
        out[np.ix_(idx, idx)] = Mx
        return out

    def extract(self, Mfull):
        idx = self.slots()
        return np.asarray(Mfull)[np.ix_(idx, idx)]
