"""Worker process: imports one property module, then serves cases read as JSON lines on
stdin; results go out as JSON lines on a private copy of the original stdout (fd 1 itself is
redirected to stderr so that the repository's prints never corrupt the protocol)."""
import json
import os
import sys
import time
import traceback


def main():
    modname = sys.argv[1]
    out = os.fdopen(os.dup(1), "w", buffering=1)
    os.dup2(2, 1)
    sys.stdout = os.fdopen(1, "w", buffering=1, closefd=False)
    import importlib

    import torch

    torch.set_num_threads(1)
    torch.set_default_dtype(torch.float64)
    mod = importlib.import_module(modname)
    if hasattr(mod, "setup_worker"):
        mod.setup_worker()
    out.write(json.dumps({"ready": True}) + "\n")
    for line in sys.stdin:
        line = line.strip()
        if not line:
            continue
        case = json.loads(line)
        t0 = time.time()
        try:
            res = mod.run_case(case)
            if not isinstance(res, dict):
                res = {"harness_error": "run_case returned %r" % type(res)}
        except BaseException as exc:  # harness error, never a verdict
            if isinstance(exc, (KeyboardInterrupt, SystemExit)):
                raise
            res = {"harness_error": "".join(traceback.format_exception(exc))[-4000:]}
        res["_wall"] = round(time.time() - t0, 3)
        out.write(json.dumps(res, default=_default) + "\n")
        out.flush()


def _default(o):
    try:
        import numpy as np

        if isinstance(o, np.generic):
            return o.item()
        if isinstance(o, np.ndarray):
            return o.tolist()
    except Exception:
        pass
    try:
        import torch

        if torch.is_tensor(o):
            return o.detach().cpu().tolist()
    except Exception:
        pass
    return repr(o)


if __name__ == "__main__":
    main()
