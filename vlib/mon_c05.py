"""Monitors shared by the C05 / C18 / C19 property modules (worker side only).

* LoopGuard     - sys.monitoring LINE counter on the first body line of the (outermost) `while`
                  loop of a function; the count is reset at every PY_START of that code object and
                  exceeding `bound` raises LoopBoundExceeded *inside* the monitored frame, so that a
                  non-terminating loop becomes an ordinary exception the harness can record.
* CallRecorder  - class-attribute wrapper (method of a class) that records what a call returned /
                  did, with a call counter, restored on exit.
* digest / same - bitwise comparison helpers for result dictionaries.
"""
import ast
import hashlib
import inspect
import sys
import textwrap

import numpy as np


class LoopBoundExceeded(Exception):
    """Raised from the monitoring callback when a guarded loop runs more than `bound` iterations
    within one call."""


class LineProbes:
    """One sys.monitoring tool shared by several probes.

    add_line(code, line, fn)  - fn(frame) is called every time `line` of `code` is about to execute
                                 (frame = the monitored frame; fn may raise into it)
    add_start(code, fn)       - fn() at every entry into `code`
    All other lines of the instrumented code objects are switched off after their first event
    (callback returns sys.monitoring.DISABLE), so the overhead is confined to the probed lines."""

    def __init__(self, name="verif-probes"):
        self.name = name
        self.lines = {}
        self.starts = {}
        self.tool = None

    def add_line(self, code, line, fn):
        self.lines[(code, line)] = fn

    def add_start(self, code, fn):
        self.starts[code] = fn

    def install(self):
        mon = sys.monitoring
        tool = None
        for t in (3, 4, 5, 1, 2):
            if mon.get_tool(t) is None:
                tool = t
                break
        if tool is None:
            raise RuntimeError("no free sys.monitoring tool id")
        self.tool = tool
        mon.use_tool_id(tool, self.name)
        ev = mon.events
        lines, starts = self.lines, self.starts
        DISABLE = mon.DISABLE

        def on_start(code, offset):
            fn = starts.get(code)
            if fn is None:
                return DISABLE
            fn()

        def on_line(code, line):
            fn = lines.get((code, line))
            if fn is None:
                return DISABLE
            fn(sys._getframe(1))

        mon.register_callback(tool, ev.PY_START, on_start)
        mon.register_callback(tool, ev.LINE, on_line)
        codes = {c for c, _ in lines} | set(starts)
        for c in codes:
            mon.set_local_events(tool, c, ev.PY_START | ev.LINE)
        self._codes = codes
        return self

    def uninstall(self):
        mon = sys.monitoring
        if self.tool is None:
            return
        try:
            for c in self._codes:
                mon.set_local_events(self.tool, c, 0)
            mon.register_callback(self.tool, mon.events.PY_START, None)
            mon.register_callback(self.tool, mon.events.LINE, None)
        finally:
            mon.free_tool_id(self.tool)
            self.tool = None

    def __enter__(self):
        return self.install()

    def __exit__(self, *a):
        self.uninstall()
        return False


def _func_ast(func):
    src = textwrap.dedent(inspect.getsource(func))
    return ast.parse(src), func.__code__.co_firstlineno


class LoopGuard:
    """Counts iterations of the first `while` loop of `func` per call; more than `bound` iterations in one
    call raise LoopBoundExceeded inside the loop.  Attach with .attach(probes) before probes.install()."""

    def __init__(self, func, bound=300, name=None):
        self.func = func
        self.code = func.__code__
        self.bound = int(bound)
        self.name = name or func.__qualname__
        self.line = self._first_while_body_line(func)
        self.count = 0          # iterations in the current call
        self.max_count = 0      # worst over all calls
        self.calls = 0
        self.trips = 0

    @staticmethod
    def _first_while_body_line(func):
        tree, first = _func_ast(func)
        for node in ast.walk(tree):
            if isinstance(node, ast.While):
                return first + node.body[0].lineno - 1
        raise RuntimeError("no while loop found in %s" % func.__qualname__)

    def _on_start(self):
        self.calls += 1
        self.count = 0

    def _on_line(self, frame):
        self.count += 1
        if self.count > self.max_count:
            self.max_count = self.count
        if self.count > self.bound:
            self.trips += 1
            self.count = 0
            raise LoopBoundExceeded("%s: loop exceeded %d iterations in one call" % (self.name, self.bound))

    def attach(self, probes):
        probes.add_start(self.code, self._on_start)
        probes.add_line(self.code, self.line, self._on_line)
        return self

    # stand-alone use
    def __enter__(self):
        self._probes = LineProbes("verif-loopguard-%s" % self.name)
        self.attach(self._probes)
        self._probes.install()
        return self

    def __exit__(self, *a):
        self._probes.uninstall()
        return False


class DiisResetWatch:
    """Watches the Pulay driver (`scf_forward2`): at the statement that computes the batch-wide
    `reset_diis` flag it reads the live per-row condition numbers and the active-row mask and records,
    per call, every iteration in which a reset is about to be applied to rows that did not ask for it."""

    def __init__(self, func):
        self.func = func
        self.code = func.__code__
        tree, first = _func_ast(func)
        self.line = None
        self.threshold = None
        for node in ast.walk(tree):
            if isinstance(node, ast.Assign) and len(node.targets) == 1 and isinstance(node.targets[0], ast.Name) \
                    and node.targets[0].id == "reset_diis" and isinstance(node.value, ast.Call):
                self.line = first + node.lineno - 1
                for sub in ast.walk(node.value):
                    if isinstance(sub, ast.Compare) and isinstance(sub.left, ast.Name) and sub.left.id == "cond" \
                            and isinstance(sub.comparators[0], ast.Constant):
                        self.threshold = float(sub.comparators[0].value)
        if self.line is None or self.threshold is None:
            raise RuntimeError("DIIS reset statement not found in %s" % func.__qualname__)
        self.calls = 0
        self.events = []       # events of the current call
        self.seen = 0          # times the probed line executed (all calls)

    def _on_start(self):
        self.calls += 1
        self.events = []

    def _on_line(self, frame):
        self.seen += 1
        loc = frame.f_locals
        cond, nc = loc.get("cond"), loc.get("notconverged")
        if cond is None or nc is None:
            return
        bad = cond > self.threshold
        if bool(bad.any()):
            rows = nc.nonzero().reshape(-1).tolist()
            flags = bad.reshape(-1).tolist()
            if len(rows) == len(flags):
                trig = [r for r, b in zip(rows, flags) if b]
                inno = [r for r, b in zip(rows, flags) if not b]
                self.events.append({"k": int(loc.get("k", -1)), "trigger_rows": trig, "innocent_rows": inno})

    def innocent_resets(self, row):
        return sum(1 for e in self.events if row in e["innocent_rows"])

    def attach(self, probes):
        probes.add_start(self.code, self._on_start)
        probes.add_line(self.code, self.line, self._on_line)
        return self


class MethodWrap:
    """Replace `cls.name` by a wrapper `hook(orig, self, *a, **k)`; counts calls; restores on exit."""

    def __init__(self, cls, name, hook):
        self.cls, self.name, self.hook = cls, name, hook
        self.calls = 0
        self.orig = None

    def __enter__(self):
        self.orig = self.cls.__dict__[self.name]
        orig = self.orig
        outer = self

        def wrapper(obj, *a, **k):
            outer.calls += 1
            return outer.hook(orig, obj, *a, **k)

        wrapper.__name__ = getattr(orig, "__name__", self.name)
        wrapper.__wrapped__ = orig
        setattr(self.cls, self.name, wrapper)
        return self

    def __exit__(self, *a):
        setattr(self.cls, self.name, self.orig)
        return False


def digest(arrs):
    """SHA-1 over the raw bytes of a list of numpy arrays (None allowed)."""
    h = hashlib.sha1()
    for a in arrs:
        if a is None:
            h.update(b"<none>")
            continue
        a = np.ascontiguousarray(np.asarray(a))
        h.update(str(a.shape).encode())
        h.update(str(a.dtype).encode())
        h.update(a.tobytes())
    return h.hexdigest()


def arrays_identical(a, b):
    """Exact value identity (NaN == NaN, -0.0 == +0.0), same shape."""
    if a is None or b is None:
        return a is None and b is None
    a, b = np.asarray(a), np.asarray(b)
    if a.shape != b.shape:
        return False
    if a.dtype.kind in "fc":
        return bool(np.array_equal(a, b, equal_nan=True))
    return bool(np.array_equal(a, b))
