"""Monitors shared by the C05 / C18 / C19 property modules (worker side only).

* LoopGuard     - sys.monitoring LINE counter on the first body line of the (outermost) `while`
                  loop of a function; the count is reset at every PY_START of that code object and
                  exceeding `bound` raises LoopBoundExceeded *inside* the monitored frame, so that a
                  non-terminating loop becomes an ordinary exception the harness can record.
* CallRecorder  - class-attribute wrapper (method of a class) that records what a call returned /
                  did, with a call counter, restored on exit.
* digest / same - bitwise comparison helpers for result dictionaries.
"""
import ast
import hashlib
import inspect
import sys
import textwrap

import numpy as np


class LoopBoundExceeded(Exception):
    """Raised from the monitoring callback when a guarded loop runs more than `bound` iterations
    within one call."""


class LineProbes:
    """One sys.monitoring tool shared by several probes.

    add_line(code, line, fn)  - fn(frame) is called every time `line` of `code` is about to execute
                                 (frame = the monitored frame; fn may raise into it)
    add_start(code, fn)       - fn() at every entry into `code`
    All other lines of the instrumented code objects are switched off after their first event
    (callback returns sys.monitoring.DISABLE), so the overhead is confined to the probed lines."""

    def __init__(self, name="verif-probes"):
        self.name = name
        self.lines = {}
        self.starts = {}
        self.tool = None

    def add_line(self, code, line, fn):
        self.lines[(code, line)] = fn

    def add_start(self, code, fn):
        self.starts[code] = fn

    def install(self):
        mon = sys.monitoring
        tool = None
        for t in (3, 4, 5, 1, 2):
            if mon.get_tool(t) is None:
                tool = t
                break
        if tool is None:
            raise RuntimeError("no free sys.monitoring tool id")
        self.tool = tool
        mon.use_tool_id(tool, self.name)
        ev = mon.events
        lines, starts = self.lines, self.starts
        DISABLE = mon.DISABLE

        def on_start(code, offset):
            fn = starts.get(code)
            if fn is None:
                return DISABLE
            fn()

        def on_line(code, line):
            fn = lines.get((code, line))
            if fn is None:
                return DISABLE
            fn(sys._getframe(1))

        mon.register_callback(tool, ev.PY_START, on_start)
        mon.register_callback(tool, ev.LINE, on_line)
        codes = {c for c, _ in lines} | set(starts)
        for c in codes:
            mon.set_local_events(tool, c, ev.PY_START | ev.LINE)
        self._codes = codes
        return self

    def uninstall(self):
        mon = sys.monitoring
        if self.tool is None:
            return
        try:
            for c in self._codes:
                mon.set_local_events(self.tool, c, 0)
            mon.register_callback(self.tool, mon.events.PY_START, None)
            mon.register_callback(self.tool, mon.events.LINE, None)
        finally:
            mon.free_tool_id(self.tool)
            self.tool = None

    def __enter__(self):
        return self.install()

    def __exit__(self, *a):
        self.uninstall()
        return False


def _func_ast(func):
    src = textwrap.dedent(inspect.getsource(func))
    return ast.parse(src), func.__code__.co_firstlineno


class LoopGuard:
    """Counts iterations of the first `while` loop of `func` per call; more than `bound` iterations in one
    call raise LoopBoundExceeded inside the loop.  Attach with .attach(probes) before probes.install()."""

    def __init__(self, func, bound=300, name=None):
        self.func = func
        self.code = func.__code__
        self.bound = int(bound)
        self.name = name or func.__qualname__
        self.line = self._first_while_body_line(func)
        self.count = 0          # iterations in the current call
        self.max_count = 0      # worst over all calls
        self.calls = 0
        self.trips = 0

    @staticmethod
    def _first_while_body_line(func):
        tree, first = _func_ast(func)
        for node in ast.walk(tree):
            if isinstance(node, ast.While):
                return first + node.body[0].lineno - 1
        raise RuntimeError("no while loop found in %s" % func.__qualname__)

    def _on_start(self):
        self.calls += 1
        self.count = 0

    def _on_line(self, frame):
        self.count += 1
        if self.count > self.max_count:
            self.max_count = self.count
        if self.count > self.bound:
            self.trips += 1
            self.count = 0
            raise LoopBoundExceeded("%s: loop exceeded %d iterations in one call" % (self.name, self.bound))

    def attach(self, probes):
        probes.add_start(self.code, self._on_start)
        probes.add_line(self.code, self.line, self._on_line)
        return self

    # stand-alone use
    def __enter__(self):
        self._probes = LineProbes("verif-loopguard-%s" % self.name)
        self.attach(self._probes)
        self._probes.install()
        return self

    def __exit__(self, *a):
        self._probes.uninstall()
        return False


class DiisResetWatch:
    """Watches the Pulay driver (`scf_forward2`): at the statement that computes the batch-wide
    `reset_diis` flag it reads the live per-row condition numbers and the active-row mask and records,
    per call, every iteration in which a reset is about to be applied to rows that did not ask for it."""

    def __init__(self, func):
        self.func = func
        self.code = func.__code__
        tree, first = _func_ast(func)
        self.line = None
        self.threshold = None
        for node in ast.walk(tree):
            if isinstance(node, ast.Assign) and len(node.targets) == 1 and isinstance(node.targets[0], ast.Name) \
                    and node.targets[0].id == "reset_diis" and isinstance(node.value, ast.Call):
                self.line = first + node.lineno - 1
                for sub in ast.walk(node.value):
                    if isinstance(sub, ast.Compare) and isinstance(sub.left, ast.Name) and sub.left.id == "cond" \
                            and isinstance(sub.comparators[0], ast.Constant):
                        self.threshold = float(sub.comparators[0].value)
        if self.line is None or self.threshold is None:
            raise RuntimeError("DIIS reset statement not found in %s" % func.__qualname__)
        self.calls = 0
        self.events = []       # events of the current call
        self.seen = 0          # times the probed line executed (all calls)
        self.cum_innocent = {}  # row -> number of resets applied on behalf of other rows, over all calls since clear_cum()

    def _on_start(self):
        self.calls += 1
        self.events = []

    def _on_line(self, frame):
        self.seen += 1
        loc = frame.f_locals
        cond, nc = loc.get("cond"), loc.get("notconverged")
        if cond is None or nc is None:
            return
        bad = cond > self.threshold
        if bool(bad.any()):
            rows = nc.nonzero().reshape(-1).tolist()
            flags = bad.reshape(-1).tolist()
            if len(rows) == len(flags):
                trig = [r for r, b in zip(rows, flags) if b]
                inno = [r for r, b in zip(rows, flags) if not b]
                self.events.append({"k": int(loc.get("k", -1)), "trigger_rows": trig, "innocent_rows": inno})
                for r in inno:
                    self.cum_innocent[r] = self.cum_innocent.get(r, 0) + 1

    def clear_cum(self):
        self.cum_innocent = {}

    def innocent_resets(self, row):
        return sum(1 for e in self.events if row in e["innocent_rows"])

    def attach(self, probes):
        probes.add_start(self.code, self._on_start)
        probes.add_line(self.code, self.line, self._on_line)
        return self


class MethodWrap:
    """Replace `cls.name` by a wrapper `hook(orig, self, *a, **k)`; counts calls; restores on exit."""

    def __init__(self, cls, name, hook):
        self.cls, self.name, self.hook = cls, name, hook
        self.calls = 0
        self.orig = None

    def __enter__(self):
        self.orig = self.cls.__dict__[self.name]
        orig = self.orig
        outer = self

        def wrapper(obj, *a, **k):
            outer.calls += 1
            return outer.hook(orig, obj, *a, **k)

        wrapper.__name__ = getattr(orig, "__name__", self.name)
        wrapper.__wrapped__ = orig
        setattr(self.cls, self.name, wrapper)
        return self

    def __exit__(self, *a):
        setattr(self.cls, self.name, self.orig)
        return False


def digest(arrs):
    """SHA-1 over the raw bytes of a list of numpy arrays (None allowed)."""
    h = hashlib.sha1()
    for a in arrs:
        if a is None:
            h.update(b"<none>")
            continue
        a = np.ascontiguousarray(np.asarray(a))
        h.update(str(a.shape).encode())
        h.update(str(a.dtype).encode())
        h.update(a.tobytes())
    return h.hexdigest()


def arrays_identical(a, b):
    """Exact value identity (NaN == NaN, -0.0 == +0.0), same shape."""
    if a is None or b is None:
        return a is None and b is None
    a, b = np.asarray(a), np.asarray(b)
    if a.shape != b.shape:
        return False
    if a.dtype.kind in "fc":
        return bool(np.array_equal(a, b, equal_nan=True))
    return bool(np.array_equal(a, b))


# ---------------------------------------------------------------------------------------------
# independent model of what Parser.forward must return (index maps + pair list)
# ---------------------------------------------------------------------------------------------
def parser_reference(species, coords, cutoff=None):
    """species [B,M] ints, coords [B,M,3] floats (numpy).  Plain-loop enumeration, no torch.
    -> dict with Z, maskd, atom_molid and a dict  pairs[(idxi, idxj)] = (mask, mask_l, pair_molid, dist, unit)"""
    species = np.asarray(species)
    coords = np.asarray(coords, float)
    B, M = species.shape
    compact = {}
    Z, maskd, molid = [], [], []
    for b in range(B):
        for i in range(M):
            if species[b, i] > 0:
                compact[(b, i)] = len(Z)
                Z.append(int(species[b, i]))
                maskd.append(b * M * M + i * (M + 1))
                molid.append(b)
    pairs = {}
    for b in range(B):
        for i in range(M):
            if species[b, i] <= 0:
                continue
            for j in range(i + 1, M):
                if species[b, j] <= 0:
                    continue
                v = coords[b, j] - coords[b, i]
                d2 = float(v @ v)
                if cutoff is not None and not (d2 < float(cutoff) ** 2):
                    continue
                d = d2 ** 0.5
                pairs[(compact[(b, i)], compact[(b, j)])] = ((b * M + i) * M + j, (b * M + j) * M + i, b, d, v / d)
    return {"Z": Z, "maskd": maskd, "atom_molid": molid, "pairs": pairs, "nmol": B, "molsize": M}


def parser_compare(out, ref, length_factor=1.0 / 0.529167, near_cutoff=None):
    """out: the tuple returned by Parser.forward (17 entries, or 18 with mask_l).  -> list of problem strings.
    near_cutoff = (cutoff, slack): pairs whose distance is within `slack` of the cutoff are not judged."""
    probs = []
    if len(out) == 18:
        (nmol, molsize, nSH, nHeavy, nHydro, nocc, Z, maskd, atom_molid, mask, mask_l, pair_molid, ni, nj, idxi, idxj, xij, rij) = out
    else:
        (nmol, molsize, nSH, nHeavy, nHydro, nocc, Z, maskd, atom_molid, mask, pair_molid, ni, nj, idxi, idxj, xij, rij) = out
        mask_l = None
    if int(nmol) != ref["nmol"] or int(molsize) != ref["molsize"]:
        probs.append("nmol/molsize %s/%s != %s/%s" % (nmol, molsize, ref["nmol"], ref["molsize"]))
    if Z.tolist() != ref["Z"]:
        probs.append("Z (compacted species) differs")
    if maskd.tolist() != ref["maskd"]:
        probs.append("maskd differs")
    if idxi is None:
        return probs
    if atom_molid.tolist() != ref["atom_molid"]:
        probs.append("atom_molid differs")
    got = {}
    ii, jj = idxi.tolist(), idxj.tolist()
    mk, pm = mask.tolist(), pair_molid.tolist()
    ml = mask_l.tolist() if mask_l is not None else [None] * len(ii)
    r, x = rij.detach().tolist(), xij.detach().tolist()
    zi, zj = ni.tolist(), nj.tolist()
    if len(set(zip(ii, jj))) != len(ii):
        probs.append("duplicate pairs in the list")
    for t in range(len(ii)):
        got[(ii[t], jj[t])] = (mk[t], ml[t], pm[t], r[t], x[t], zi[t], zj[t])
    skip = set()
    if near_cutoff is not None:
        c, slack = near_cutoff
        # pairs (present or absent) within slack of the cutoff are a tie and are not judged
        skip = {k for k, v in ref.get("all_pairs", ref["pairs"]).items() if abs(v[3] - c) <= slack}
    want = {k for k in ref["pairs"] if k not in skip}
    have = {k for k in got if k not in skip}
    missing, extra = want - have, have - want
    if missing:
        probs.append("%d pairs missing from the list, e.g. %s" % (len(missing), sorted(missing)[:3]))
    if extra:
        probs.append("%d pairs in the list that should not be there, e.g. %s" % (len(extra), sorted(extra)[:3]))
    bad = {"mask": 0, "mask_l": 0, "pair_molid": 0, "rij": 0, "xij": 0, "ni/nj": 0}
    for k in want & have:
        w, g = ref["pairs"][k], got[k]
        if g[0] != w[0]:
            bad["mask"] += 1
        if g[1] is not None and g[1] != w[1]:
            bad["mask_l"] += 1
        if g[2] != w[2]:
            bad["pair_molid"] += 1
        if not (abs(g[3] - w[3] * length_factor) <= 1e-9 * max(1.0, w[3] * length_factor)):      # NaN counts as wrong
            bad["rij"] += 1
        if not all(abs(g[4][c] - w[4][c]) <= 1e-9 for c in range(3)):
            bad["xij"] += 1
        if g[5] != ref["Z"][k[0]] or g[6] != ref["Z"][k[1]]:
            bad["ni/nj"] += 1
    for name, n in bad.items():
        if n:
            probs.append("%s wrong for %d pairs" % (name, n))
    return probs
