"""Case executor: N long-lived worker subprocesses (1 torch thread each), a shared queue, a
per-case wall-clock watchdog.  A watchdog firing or a dead worker marks the case
*inconclusive* (never a violation) and the worker is replaced."""
import json
import os
import queue
import select
import subprocess
import sys
import threading
import time

from . import env


class _Worker:
    def __init__(self, modname, extra_env=None, start_timeout=180):
        self.modname = modname
        self.extra_env = extra_env
        self.start_timeout = start_timeout
        self.p = None
        self.start()

    def start(self):
        self.stderr_path = None
        self.p = subprocess.Popen(
            [env.PY, "-m", "vlib.worker", self.modname],
            stdin=subprocess.PIPE,
            stdout=subprocess.PIPE,
            stderr=subprocess.DEVNULL if not os.environ.get("VERIF_DEBUG") else None,
            env=env.child_env(self.extra_env),
            cwd=env.VERIF,
            text=True,
            bufsize=1,
        )
        line = self._readline(self.start_timeout)
        if line is None or '"ready"' not in line:
            raise RuntimeError("worker for %s failed to start: %r" % (self.modname, line))

    def _readline(self, timeout):
        fd = self.p.stdout.fileno()
        deadline = time.time() + timeout
        buf = getattr(self, "_buf", b"")
        while True:
            if b"\n" in buf:
                line, _, buf = buf.partition(b"\n")
                self._buf = buf
                return line.decode()
            left = deadline - time.time()
            if left <= 0:
                self._buf = buf
                return None
            r, _, _ = select.select([fd], [], [], min(left, 1.0))
            if r:
                chunk = os.read(fd, 1 << 16)
                if not chunk:
                    self._buf = b""
                    return None if not buf else buf.decode()
                buf += chunk
            elif self.p.poll() is not None:
                # drained and dead
                self._buf = b""
                return None

    def run(self, case, timeout):
        try:
            self.p.stdin.write(json.dumps(case) + "\n")
            self.p.stdin.flush()
        except (BrokenPipeError, OSError):
            self.kill()
            self.start()
            return {"inconclusive": "worker died before accepting the case"}
        line = self._readline(timeout)
        if line is None:
            rc = self.p.poll()
            self.kill()
            self.start()
            if rc is None:
                return {"inconclusive": "watchdog: case exceeded %.0f s wall clock" % timeout}
            return {"inconclusive": "worker process died (exit %s) while running the case" % rc}
        try:
            return json.loads(line)
        except ValueError:
            return {"harness_error": "unparsable worker output: %r" % line[:200]}

    def kill(self):
        try:
            self.p.kill()
            self.p.wait(timeout=10)
        except Exception:
            pass
        self._buf = b""

    def close(self):
        try:
            self.p.stdin.close()
            self.p.wait(timeout=5)
        except Exception:
            self.kill()


def run_cases(modname, cases, case_timeout=300.0, nworkers=None, extra_env=None, progress=True,
              budget_s=None):
    """Run every case through module.run_case in worker subprocesses.  Returns a list of
    result dicts aligned with `cases`.  Cases not started when `budget_s` expires are marked
    'skipped' (reported, never counted as support)."""
    n = len(cases)
    if n == 0:
        return []
    nworkers = max(1, min(nworkers or env.NCPU, n))
    q = queue.Queue()
    for i, c in enumerate(cases):
        q.put((i, c))
    results = [None] * n
    t_start = time.time()
    lock = threading.Lock()
    done = [0]

    def loop():
        try:
            w = _Worker(modname, extra_env)
        except Exception as exc:
            while True:
                try:
                    i, c = q.get_nowait()
                except queue.Empty:
                    return
                results[i] = {"harness_error": "worker start failed: %s" % exc}
        while True:
            try:
                i, c = q.get_nowait()
            except queue.Empty:
                break
            if budget_s is not None and time.time() - t_start > budget_s:
                results[i] = {"skipped": "time budget exhausted before the case started"}
                continue
            to = c.get("_timeout", case_timeout) if isinstance(c, dict) else case_timeout
            results[i] = w.run(c, to)
            with lock:
                done[0] += 1
                if progress and (done[0] % max(1, n // 10) == 0):
                    print("  [%s] %d/%d cases, %.0f s" % (modname, done[0], n, time.time() - t_start),
                          file=sys.stderr, flush=True)
        w.close()

    threads = [threading.Thread(target=loop, daemon=True) for _ in range(nworkers)]
    for t in threads:
        t.start()
    for t in threads:
        t.join()
    return results
