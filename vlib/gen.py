"""Seeded generators: molecule library, distortions, rigid motions, singular orientations,
batches with padding.  Pure numpy; no dependency on the repository."""
import math

import numpy as np

# elements with an s/sp parametrisation per method (U_ss != 0 in the shipped tables, Z <= 18)
ELEMENTS = {
    "MNDO": [1, 3, 4, 5, 6, 7, 8, 9, 11, 13, 14, 15, 16, 17],
    "AM1": [1, 4, 5, 6, 7, 8, 9, 13, 14, 15, 16, 17],
    "PM3": [1, 3, 4, 6, 7, 8, 9, 12, 13, 14, 15, 16, 17],
    "PM6_SP": [1, 3, 4, 5, 6, 7, 8, 9, 11, 12, 13, 14, 15, 16, 17],
    "PM6": [1, 3, 4, 5, 6, 7, 8, 9, 11, 12, 13, 14, 15, 16, 17],
}
SYM = {1: "H", 2: "He", 3: "Li", 4: "Be", 5: "B", 6: "C", 7: "N", 8: "O", 9: "F", 10: "Ne", 11: "Na",
       12: "Mg", 13: "Al", 14: "Si", 15: "P", 16: "S", 17: "Cl", 18: "Ar"}
VALENCE = {1: 1, 3: 1, 4: 2, 5: 3, 6: 4, 7: 5, 8: 6, 9: 7, 11: 1, 12: 2, 13: 3, 14: 4, 15: 5, 16: 6, 17: 7}


def rng(*parts):
    from . import env

    return np.random.default_rng(env.subseed(*parts))


# ---------------------------------------------------------------------------------------
# molecule library
# ---------------------------------------------------------------------------------------
def _sph(r, theta_deg, phi_deg):
    t, p = math.radians(theta_deg), math.radians(phi_deg)
    return [r * math.sin(t) * math.cos(p), r * math.sin(t) * math.sin(p), r * math.cos(t)]


def _xh4(Z, d):
    a = d / math.sqrt(3)
    return [(Z, 0, 0, 0), (1, a, a, a), (1, -a, -a, a), (1, -a, a, -a), (1, a, -a, -a)]


def _xh3_pyr(Z, d, hxh_deg):
    # pyramidal XH3 with H-X-H angle
    h = math.radians(hxh_deg)
    s = math.sqrt(2 * (1 - math.cos(h)) / 3)  # sin(theta) of X-H with the C3 axis
    c = -math.sqrt(max(0.0, 1 - s * s))
    out = [(Z, 0, 0, 0)]
    for k in range(3):
        p = 2 * math.pi * k / 3
        out.append((1, d * s * math.cos(p), d * s * math.sin(p), d * c))
    return out


def _xh3_planar(Z, d):
    return [(Z, 0, 0, 0)] + [(1, d * math.cos(2 * math.pi * k / 3), d * math.sin(2 * math.pi * k / 3), 0) for k in range(3)]


def _xh2_bent(Z, d, ang):
    a = math.radians(ang) / 2
    return [(Z, 0, 0, 0), (1, d * math.sin(a), 0, d * math.cos(a)), (1, -d * math.sin(a), 0, d * math.cos(a))]


def _diatomic(Z1, Z2, d):
    return [(Z1, 0, 0, 0), (Z2, d, 0, 0)]


def _ch3x(ZX, dcx, dch=1.09, xch=109.5, extra=()):
    out = [(6, 0, 0, 0), (ZX, 0, 0, dcx)]
    for k in range(3):
        x, y, z = _sph(dch, xch, 120 * k + 15)
        out.append((1, x, y, z))
    for Z, x, y, z in extra:
        out.append((Z, x, y, z))
    return out


def _benzene():
    out = []
    for k in range(6):
        a = math.pi * k / 3
        out.append((6, 1.397 * math.cos(a), 1.397 * math.sin(a), 0.0))
        out.append((1, 2.481 * math.cos(a), 2.481 * math.sin(a), 0.0))
    return out


# name: (atoms, charge, multiplicity)
_LIB = {
    "H2": (_diatomic(1, 1, 0.74), 0, 1),
    "H2O": (_xh2_bent(8, 0.958, 104.5), 0, 1),
    "NH3": (_xh3_pyr(7, 1.012, 106.7), 0, 1),
    "CH4": (_xh4(6, 1.089), 0, 1),
    "HF": (_diatomic(9, 1, 0.917), 0, 1),
    "LiH": (_diatomic(3, 1, 1.596), 0, 1),
    "BeH2": ([(4, 0, 0, 0), (1, 1.33, 0, 0), (1, -1.33, 0, 0)], 0, 1),
    "BH3": (_xh3_planar(5, 1.19), 0, 1),
    "CO": (_diatomic(8, 6, 1.128), 0, 1),
    "CO2": ([(6, 0, 0, 0), (8, 1.16, 0, 0), (8, -1.16, 0, 0)], 0, 1),
    "N2": (_diatomic(7, 7, 1.098), 0, 1),
    "HCN": ([(6, 0, 0, 0), (7, 1.153, 0, 0), (1, -1.065, 0, 0)], 0, 1),
    "C2H2": ([(6, 0.6015, 0, 0), (6, -0.6015, 0, 0), (1, 1.6615, 0, 0), (1, -1.6615, 0, 0)], 0, 1),
    "C2H4": ([(6, 0.6695, 0, 0), (6, -0.6695, 0, 0), (1, 1.2335, 0.9285, 0), (1, 1.2335, -0.9285, 0),
              (1, -1.2335, 0.9285, 0), (1, -1.2335, -0.9285, 0)], 0, 1),
    "C2H6": ([(6, 0, 0, 0.765), (6, 0, 0, -0.765)]
             + [(1,) + tuple(np.add(_sph(1.09, 70.5, 120 * k), [0, 0, 0.765])) for k in range(3)]
             + [(1,) + tuple(np.add(_sph(1.09, 109.5, 120 * k + 60), [0, 0, -0.765])) for k in range(3)], 0, 1),
    "CH2O": ([(6, 0, 0, 0), (8, 0, 0, 1.205), (1, 0, 0.943, -0.587), (1, 0, -0.943, -0.587)], 0, 1),
    "CH3OH": (_ch3x(8, 1.427, extra=[(1, 0.96 * math.sin(math.radians(108.5)), 0, 1.427 - 0.96 * math.cos(math.radians(108.5)))]), 0, 1),
    "HCOOH": ([(6, 0, 0, 0), (8, 0, 1.04, 0.60), (8, 0, -1.14, 0.70), (1, 0, -0.10, -1.09), (1, 0, -1.80, 0.00)], 0, 1),
    "F2": (_diatomic(9, 9, 1.412), 0, 1),
    "HOOH": ([(8, 0, 0.7375, -0.05), (8, 0, -0.7375, -0.05), (1, 0.80, 0.90, 0.42), (1, -0.80, -0.90, 0.42)], 0, 1),
    "CH3F": (_ch3x(9, 1.383), 0, 1),
    "CH3Cl": (_ch3x(17, 1.781), 0, 1),
    "NaH": (_diatomic(11, 1, 1.887), 0, 1),
    "NaCl": (_diatomic(17, 11, 2.361), 0, 1),
    "LiF": (_diatomic(9, 3, 1.564), 0, 1),
    "MgH2": ([(12, 0, 0, 0), (1, 1.70, 0, 0), (1, -1.70, 0, 0)], 0, 1),
    "AlH3": (_xh3_planar(13, 1.58), 0, 1),
    "SiH4": (_xh4(14, 1.48), 0, 1),
    "PH3": (_xh3_pyr(15, 1.42, 93.5), 0, 1),
    "H2S": (_xh2_bent(16, 1.336, 92.1), 0, 1),
    "HCl": (_diatomic(17, 1, 1.275), 0, 1),
    "Cl2": (_diatomic(17, 17, 1.988), 0, 1),
    "SO2": ([(16, 0, 0, 0), (8, 1.431 * math.sin(math.radians(59.75)), 0, 1.431 * math.cos(math.radians(59.75))),
             (8, -1.431 * math.sin(math.radians(59.75)), 0, 1.431 * math.cos(math.radians(59.75)))], 0, 1),
    "CH3SH": (_ch3x(16, 1.819, extra=[(1, 1.34 * math.sin(math.radians(96.5)), 0, 1.819 - 1.34 * math.cos(math.radians(96.5)))]), 0, 1),
    "HNO": ([(7, 0, 0, 0), (8, 1.211, 0, 0), (1, -0.35, 0.99, 0)], 0, 1),
    "N2O": ([(7, 0, 0, 0), (7, -1.128, 0, 0), (8, 1.184, 0, 0)], 0, 1),
    "CH3NH2": (_ch3x(7, 1.471, extra=[(1, 0.95, 0.0, 1.80), (1, -0.42, 0.86, 1.80)]), 0, 1),
    "SiH3Cl": ([(14, 0, 0, 0), (17, 0, 0, 2.05)] + [(1,) + tuple(_sph(1.48, 108.5, 120 * k + 10)) for k in range(3)], 0, 1),
    "PCl3": ([(15, 0, 0, 0)] + [(17,) + tuple(_sph(2.04, 118.0, 120 * k)) for k in range(3)], 0, 1),
    "AlCl3": ([(13, 0, 0, 0)] + [(17, 2.06 * math.cos(2 * math.pi * k / 3), 2.06 * math.sin(2 * math.pi * k / 3), 0) for k in range(3)], 0, 1),
    "BF3": ([(5, 0, 0, 0)] + [(9, 1.31 * math.cos(2 * math.pi * k / 3), 1.31 * math.sin(2 * math.pi * k / 3), 0) for k in range(3)], 0, 1),
    "C6H6": (_benzene(), 0, 1),
    # ions
    "NH4+": (_xh4(7, 1.02), 1, 1),
    "H3O+": (_xh3_pyr(8, 0.98, 111.0), 1, 1),
    "OH-": (_diatomic(8, 1, 0.96), -1, 1),
    "CN-": (_diatomic(7, 6, 1.17), -1, 1),
    "NO+": (_diatomic(8, 7, 1.06), 1, 1),
    "HCOO-": ([(6, 0, 0, 0), (8, 0, 1.12, 0.55), (8, 0, -1.12, 0.55), (1, 0, 0, -1.12)], -1, 1),
    # open shells (UHF)
    "CH3.": (_xh3_planar(6, 1.08), 0, 2),
    "OH.": (_diatomic(8, 1, 0.97), 0, 2),
    "NO.": (_diatomic(8, 7, 1.15), 0, 2),
    "NH2.": (_xh2_bent(7, 1.02, 103.0), 0, 2),
    "O2t": (_diatomic(8, 8, 1.21), 0, 3),
    "CH2t": (_xh2_bent(6, 1.08, 134.0), 0, 3),
    "H2O+.": (_xh2_bent(8, 1.0, 109.0), 1, 2),
}

CLOSED_NEUTRAL = [k for k, v in _LIB.items() if v[1] == 0 and v[2] == 1]
IONS = [k for k, v in _LIB.items() if v[1] != 0 and v[2] == 1]
RADICALS = [k for k, v in _LIB.items() if v[2] != 1]
SMALL = ["H2", "H2O", "NH3", "CH4", "HF", "CO", "HCN", "CH2O", "N2", "C2H2", "LiH", "HCl", "H2S"]


def molecule(name):
    """-> (species[N] int list sorted non-increasing, coords[N,3] float array, charge, mult)"""
    atoms, q, m = _LIB[name]
    atoms = sorted(atoms, key=lambda a: -a[0])  # stable: keeps relative order within an element
    Z = [int(a[0]) for a in atoms]
    X = np.array([[float(a[1]), float(a[2]), float(a[3])] for a in atoms])
    return Z, X, q, m


def available(name, method):
    Z = molecule(name)[0]
    return all(z in ELEMENTS[method] for z in Z)


def names_for(method, pool=None):
    pool = pool if pool is not None else list(_LIB)
    return [n for n in pool if available(n, method)]


# ---------------------------------------------------------------------------------------
# geometry transformations
# ---------------------------------------------------------------------------------------
def min_dist(X):
    n = len(X)
    if n < 2:
        return 9e9
    d = np.linalg.norm(X[:, None, :] - X[None, :, :], axis=-1) + np.eye(n) * 9e9
    return float(d.min())


def distort(X, g, sigma=0.08, dmin=0.6):
    X0 = np.asarray(X, float)
    dref = min_dist(X0)
    for _ in range(50):
        Y = X0 + g.normal(0.0, sigma, X0.shape)
        if min_dist(Y) >= max(dmin, 0.75 * min(dref, 1.0)):
            return Y
    return X0.copy()


def haar(g):
    q = g.normal(size=4)
    q /= np.linalg.norm(q)
    w, x, y, z = q
    return np.array([
        [1 - 2 * (y * y + z * z), 2 * (x * y - z * w), 2 * (x * z + y * w)],
        [2 * (x * y + z * w), 1 - 2 * (x * x + z * z), 2 * (y * z - x * w)],
        [2 * (x * z - y * w), 2 * (y * z + x * w), 1 - 2 * (x * x + y * y)]])


def min_axis_angle_deg(X):
    """smallest angle (deg) between any interatomic vector and any of the +/-x,y,z axes"""
    X = np.asarray(X, float)
    n = len(X)
    best = 90.0
    for i in range(n):
        for j in range(i + 1, n):
            v = X[j] - X[i]
            v = v / np.linalg.norm(v)
            c = np.max(np.abs(v))
            best = min(best, math.degrees(math.acos(min(1.0, c))))
    return best


def generic_rotation(X, g, min_deg=5.0):
    for _ in range(200):
        R = haar(g)
        if min_axis_angle_deg(np.asarray(X) @ R.T) >= min_deg:
            return R
    return haar(g)


def rot_a_to_b(a, b):
    """proper rotation taking unit vector a onto unit vector b (Rodrigues; handles antiparallel)."""
    a = np.asarray(a, float) / np.linalg.norm(a)
    b = np.asarray(b, float) / np.linalg.norm(b)
    v = np.cross(a, b)
    c = float(a @ b)
    if np.linalg.norm(v) < 1e-14:
        if c > 0:
            return np.eye(3)
        # 180 deg about any axis perpendicular to a
        p = np.eye(3)[np.argmin(np.abs(a))]
        u = np.cross(a, p)
        u /= np.linalg.norm(u)
        return 2 * np.outer(u, u) - np.eye(3)
    K = np.array([[0, -v[2], v[1]], [v[2], 0, -v[0]], [-v[1], v[0], 0]])
    return np.eye(3) + K + K @ K / (1 + c)


AXES = {"+x": [1, 0, 0], "-x": [-1, 0, 0], "+y": [0, 1, 0], "-y": [0, -1, 0], "+z": [0, 0, 1], "-z": [0, 0, -1]}


def align_pair(X, i, j, axis, cone=0.0, g=None):
    """rotation that puts the vector X[j]-X[i] on `axis` (one of AXES keys), tilted away from it by
    `cone` radians in a random azimuth (cone=0: numerically exact alignment).  A random spin about
    the axis is included so other atoms are generic."""
    X = np.asarray(X, float)
    v = X[j] - X[i]
    t = np.array(AXES[axis], float)
    R = rot_a_to_b(v, t)
    if g is not None:
        ang = g.uniform(0, 2 * math.pi)
        K = np.array([[0, -t[2], t[1]], [t[2], 0, -t[0]], [-t[1], t[0], 0]])
        S = np.eye(3) + math.sin(ang) * K + (1 - math.cos(ang)) * K @ K
        R = S @ R
    if cone > 0:
        # tilt about an axis perpendicular to t
        p = np.eye(3)[np.argmin(np.abs(t))]
        u = np.cross(t, p)
        u /= np.linalg.norm(u)
        if g is not None:
            az = g.uniform(0, 2 * math.pi)
            Kt = np.array([[0, -t[2], t[1]], [t[2], 0, -t[0]], [-t[1], t[0], 0]])
            Saz = np.eye(3) + math.sin(az) * Kt + (1 - math.cos(az)) * Kt @ Kt
            u = Saz @ u
        K = np.array([[0, -u[2], u[1]], [u[2], 0, -u[0]], [-u[1], u[0], 0]])
        T = np.eye(3) + math.sin(cone) * K + (1 - math.cos(cone)) * K @ K
        R = T @ R
    return R


def bonded_pairs(Z, X, scale=1.3):
    rc = {1: 0.31, 3: 1.28, 4: 0.96, 5: 0.84, 6: 0.76, 7: 0.71, 8: 0.66, 9: 0.57, 11: 1.66, 12: 1.41,
          13: 1.21, 14: 1.11, 15: 1.07, 16: 1.05, 17: 1.02}
    X = np.asarray(X)
    out = []
    for i in range(len(Z)):
        for j in range(i + 1, len(Z)):
            if np.linalg.norm(X[i] - X[j]) <= scale * (rc[Z[i]] + rc[Z[j]]):
                out.append((i, j))
    return out


# ---------------------------------------------------------------------------------------
# batches
# ---------------------------------------------------------------------------------------
def pad_batch(mols, extra_pad=0, pad_value=0.0, g=None):
    """mols: list of (Z list, X array).  -> species [B,M] int list, coords [B,M,3] list"""
    M = max(len(z) for z, _ in mols) + extra_pad
    S, C = [], []
    for Z, X in mols:
        n = len(Z)
        S.append(list(Z) + [0] * (M - n))
        X = np.asarray(X, float)
        if isinstance(pad_value, str) and pad_value == "random" and g is not None:
            pad = g.normal(0, 3.0, (M - n, 3))
        elif isinstance(pad_value, str) and pad_value == "coincident":
            pad = np.repeat(X[:1], M - n, axis=0)
        else:
            pad = np.full((M - n, 3), float(pad_value))
        C.append(np.vstack([X, pad]).tolist())
    return S, C


def diatomic(Z1, Z2, d):
    a, b = (Z1, Z2) if Z1 >= Z2 else (Z2, Z1)
    return [a, b], np.array([[0.0, 0, 0], [d, 0, 0]])


def diatomic_charge_for_closed_shell(Z1, Z2):
    """charge in {0,+1,-1} that makes the valence electron count even (RHF-eligible)."""
    n = VALENCE[Z1] + VALENCE[Z2]
    return 0 if n % 2 == 0 else 1
