"""Independent dense singlet CIS / RPA reference for property C16 (numpy only).

Inputs are *data* read at the API boundary of a finished `Electronic_Structure` call:
orbital energies, MO coefficients, the NDDO two-centre integral blocks `molecule.w`
(one 10x10 block per atom pair, packed (ss, xs, xx, ys, yx, yy, zs, zx, zy, zz) on each centre,
first index on the atom listed first in the pair) and the one-centre parameters
g_ss, g_sp, g_pp, g_p2, h_sp.  Nothing here calls the repository.

Conventions
  AO order of the packed orbital basis used by `molecule.molecular_orbitals`:
      heavy atoms first (4 AOs each: s, px, py, pz, in atom order), then one s AO per hydrogen.
  Singlet CIS :  A[ia,jb] = d_ij d_ab (e_a - e_i) + 2 (ia|jb) - (ij|ab)
  RPA         :  B[ia,jb] = 2 (ia|jb) - (ib|ja)            (real orbitals)
  compound index ia = i * nvirt + a over the active occupied / virtual lists.
"""
import numpy as np

# packed index of the orbital pair (a, b), a, b in (s, x, y, z)
IND = np.array([[0, 1, 3, 6], [1, 2, 4, 7], [3, 4, 5, 8], [6, 7, 8, 9]])
EV_BOHR = 27.21  # e^2 in eV*bohr (MOPAC-7 value used by the package)
A0 = 0.529167


def all_finite(*arrays):
    """NaN/inf gate: comparisons like `x > bound` are False for NaN, so every consumer checks finiteness explicitly"""
    return all(bool(np.all(np.isfinite(np.asarray(a, float)))) for a in arrays)


def ao_offsets(Z):
    """Z: atomic numbers of the real atoms of one molecule (heavy first, then H).
    -> list over atoms of AO index lists in the packed basis, and norb."""
    Z = [int(z) for z in Z]
    nheavy = sum(1 for z in Z if z > 1)
    offs = []
    ih = 0
    ik = 0
    seen_h = False
    for z in Z:
        if z > 1:
            if seen_h:
                raise ValueError("atoms not sorted heavy-first")
            offs.append([4 * ik + t for t in range(4)])
            ik += 1
        else:
            seen_h = True
            offs.append([4 * nheavy + ih])
            ih += 1
    return offs, 4 * nheavy + ih


def eri_ao(Z, pairs, wblocks, gss, gsp, gpp, gp2, hsp):
    """Dense NDDO AO two-electron tensor G[m,n,l,s] = (mn|ls) in the packed basis."""
    offs, norb = ao_offsets(Z)
    G = np.zeros((norb,) * 4)
    for k, ao in enumerate(offs):
        s = ao[0]
        G[s, s, s, s] = gss[k]
        if len(ao) == 4:
            p = ao[1:]
            for x in p:
                G[s, s, x, x] = G[x, x, s, s] = gsp[k]
                G[x, x, x, x] = gpp[k]
                for a, b, c, d in ((s, x, s, x), (s, x, x, s), (x, s, s, x), (x, s, x, s)):
                    G[a, b, c, d] = hsp[k]
                for y in p:
                    if y != x:
                        G[x, x, y, y] = gp2[k]
                        v = 0.5 * (gpp[k] - gp2[k])
                        for a, b, c, d in ((x, y, x, y), (x, y, y, x)):
                            G[a, b, c, d] = v
    for (i, j), wb in zip(pairs, wblocks):
        ai, aj = offs[i], offs[j]
        for a, ma in enumerate(ai):
            for b, mb in enumerate(ai):
                for c, mc in enumerate(aj):
                    for d, md in enumerate(aj):
                        v = wb[IND[a, b], IND[c, d]]
                        G[ma, mb, mc, md] = v
                        G[mc, md, ma, mb] = v
    return G


def ss_klopman(Z, X, pairs, gss):
    """(ss|ss) of every pair from the Klopman-Ohno formula -- an independent check that pair p of the
    integral array really belongs to atoms (i, j)."""
    out = []
    for (i, j) in pairs:
        r = np.linalg.norm(np.asarray(X[i]) - np.asarray(X[j])) / A0
        rho = 0.5 * EV_BOHR / gss[i] + 0.5 * EV_BOHR / gss[j]
        out.append(EV_BOHR / np.sqrt(r * r + rho * rho))
    return np.array(out)


def dense_AB(G, C, e, occ, virt):
    """-> A, B (nov x nov) for active occupied / virtual orbital index lists."""
    Co, Cv = C[:, occ], C[:, virt]
    no, nv = len(occ), len(virt)
    # (i a | j b)
    t = np.einsum("mnls,mi->inls", G, Co, optimize=True)
    t_ov = np.einsum("inls,na->ials", t, Cv, optimize=True)
    ovov = np.einsum("ials,lj,sb->iajb", t_ov, Co, Cv, optimize=True)
    t_oo = np.einsum("inls,nj->ijls", t, Co, optimize=True)
    oovv = np.einsum("ijls,la,sb->ijab", t_oo, Cv, Cv, optimize=True)
    nov = no * nv
    A = 2.0 * ovov.reshape(nov, nov) - oovv.transpose(0, 2, 1, 3).reshape(nov, nov)
    B = 2.0 * ovov.reshape(nov, nov) - ovov.transpose(0, 3, 2, 1).reshape(nov, nov)
    d = (e[virt][None, :] - e[occ][:, None]).reshape(nov)
    A = A + np.diag(d)
    return A, B


def fock_2e(G, P):
    """closed-shell two-electron part  G[P]_mn = sum_ls P_ls [(mn|ls) - 1/2 (ml|ns)]."""
    return np.einsum("mnls,ls->mn", G, P) - 0.5 * np.einsum("mlns,ls->mn", G, P)


def cis_eig(A):
    lam, U = np.linalg.eigh(0.5 * (A + A.T))
    return lam, U


def rpa_eig(A, B):
    """-> omega (ascending, positive), X, Y (columns), normalised X^T X - Y^T Y = 1.
    Uses the symmetric reduction  (A-B)^(1/2) (A+B) (A-B)^(1/2) Z = omega^2 Z."""
    M = 0.5 * ((A - B) + (A - B).T)
    K = 0.5 * ((A + B) + (A + B).T)
    m, Um = np.linalg.eigh(M)
    if m.min() <= 0:
        return None
    Mh = (Um * np.sqrt(m)) @ Um.T
    S = Mh @ K @ Mh
    w2, Zv = np.linalg.eigh(0.5 * (S + S.T))
    if w2.min() <= 0:
        return None
    om = np.sqrt(w2)
    u = Mh @ Zv  # X+Y (unnormalised)
    v = (K @ u) / om  # X-Y
    Xm, Ym = 0.5 * (u + v), 0.5 * (u - v)
    nrm = np.sqrt(np.abs((Xm * Xm).sum(0) - (Ym * Ym).sum(0)))
    return om, Xm / nrm, Ym / nrm, m.min(), m.max()
