"""MD output / restart machinery shared by C10 (kill + resume) and C11 (output cadences).

Four parts:

1. engine construction from a JSON-able configuration (`build`, `run_fresh`, `run_resume`);
2. the *child side*: a process that performs one run or one resume with monitors attached to the
   writers / checkpointing functions of the repository, an optional crash injected at the n-th
   invocation of one of them (`os._exit(137)` = what SIGKILL leaves, or an exception = the `finally`
   block runs), an append-only event log written with raw `os.write` (survives `os._exit`) and
   the repository's stdout captured into a file;
3. the *parent side*: `fork_child` (fast: the worker has torch/seqm imported but never exercises
   them itself, every run happens in a forked child), `exec_child` (fresh interpreter, optionally under
   `strace -e inject=...:signal=KILL:when=N`, optionally SIGKILLed after a delay);
4. offline readers and comparators for the artefacts a run leaves behind (HDF5, XYZ, checkpoint,
   stdout, event log).

Nothing here imports vlib.md (written by another builder).  The module top level is stdlib + numpy
only; torch / seqm / h5py are imported inside functions.
"""
import json
import math
import os
import re
import signal
import subprocess
import sys
import time
import traceback

import numpy as np

from . import env, gen

ENGINES = ("bomd", "langevin", "xl", "xl_damped", "ksa", "ksa_damped", "cis_bomd", "cis_xl", "fssh", "fssh_damped")
H5_STREAMS = ("data", "coordinates", "velocities", "forces", "nonadiabatic")
ALL_STREAMS = ("data", "coordinates", "velocities", "forces", "xyz", "nonadiabatic", "print", "checkpoint")
EXIT_CRASH = 137      # os._exit at an injected crash point
EXIT_EXC_CRASH = 3    # injected exception propagated through the repository's finally blocks
EXIT_ERROR = 4        # the repository (or the harness) raised something that was not injected


class SimulatedCrash(RuntimeError):
    pass


# =====================================================================================
# 1. configuration -> engine
# =====================================================================================
def default_cfg(**kw):
    cfg = {
        "engine": "bomd", "mols": ["H2O"], "geom_seed": 1, "sigma": 0.03,
        "method": "AM1", "scf_eps": 1e-8, "converger": [1], "uhf": False,
        "dt": 0.4, "Temp": 300.0, "steps": 8, "seed": 0, "reuse_P": True, "remove_com": None,
        "k": 5, "damp": 20.0, "n_states": 2, "active_state": 1,
        "molid": [0],
        "cad": {"data": 1, "coordinates": 1, "velocities": 1, "forces": 1, "xyz": 1, "nonadiabatic": 0,
                "print": 1, "checkpoint": 0},
        "prefix": "/tmp/pyseqm-mdio/run",
    }
    cfg.update(kw)
    return cfg


def geometry(cfg):
    """-> species [B][M] ints, coords [B][M][3], charges [B], mult [B] (zero padded batch)."""
    mols, q, m = [], [], []
    for idx, name in enumerate(cfg["mols"]):
        Z, X, ch, mu = gen.molecule(name)
        g = np.random.default_rng([int(cfg.get("geom_seed", 0)), idx])
        X = gen.distort(X, g, sigma=float(cfg.get("sigma", 0.03)))
        R = gen.generic_rotation(X, g)
        X = X @ R.T
        mols.append((Z, X))
        q.append(ch)
        m.append(mu)
    S, C = gen.pad_batch(mols, extra_pad=int(cfg.get("extra_pad", 0)))
    return S, C, q, m


def seqm_parameters(cfg):
    sp = {"method": cfg.get("method", "AM1"), "scf_eps": float(cfg.get("scf_eps", 1e-8)),
          "scf_converger": list(cfg.get("converger", [1]))}
    if cfg.get("uhf"):
        sp["UHF"] = True
    eng = cfg["engine"]
    if eng in ("cis_bomd", "cis_xl"):
        sp["excited_states"] = {"n_states": int(cfg.get("n_states", 2)), "method": "cis"}
        sp["active_state"] = int(cfg.get("active_state", 1))
    elif eng in ("fssh", "fssh_damped"):
        sp["excited_states"] = {"n_states": int(cfg.get("n_states", 2)), "method": "cis"}
    return sp


def output_dict(cfg):
    cad = cfg["cad"]
    h5 = {k: int(cad.get(k, 0)) for k in ("data", "coordinates", "velocities", "forces")}
    if cfg["engine"] in ("fssh", "fssh_damped"):
        h5["nonadiabatic"] = int(cad.get("nonadiabatic", 0))
    if cfg["engine"] in ("fssh", "fssh_damped", "cis_bomd", "cis_xl") and int(cad.get("tdm", 0)) > 0:
        h5["transition_density_matrices"] = int(cad["tdm"])      # its own stream, engines with excited states only
    if cfg.get("write_mo"):
        h5["write_mo"] = True
    return {"molid": list(cfg["molid"]), "prefix": cfg["prefix"], "print every": int(cad.get("print", 0)),
            "checkpoint every": int(cad.get("checkpoint", 0)), "xyz": int(cad.get("xyz", 0)), "h5": h5}


def build(cfg):
    """-> (md engine, molecule, kwargs for md.run).  Runs inside a child."""
    import torch
    from seqm import MolecularDynamics as MD
    from seqm.Molecule import Molecule
    from seqm.seqm_functions.constants import Constants

    torch.set_default_dtype(torch.float64)
    S, C, q, m = geometry(cfg)
    sp = seqm_parameters(cfg)
    species = torch.as_tensor(S, dtype=torch.int64)
    coords = torch.as_tensor(np.asarray(C), dtype=torch.float64)
    charges = torch.as_tensor(q, dtype=torch.float64) if any(q) else 0
    mult = torch.as_tensor(m, dtype=torch.float64) if any(x != 1 for x in m) else 1
    molecule = Molecule(Constants(), sp, coords, species, charges, mult)
    common = dict(seqm_parameters=sp, timestep=float(cfg["dt"]), Temp=float(cfg["Temp"]), output=output_dict(cfg))
    eng = cfg["engine"]
    if eng in ("bomd", "cis_bomd"):
        md = MD.Molecular_Dynamics_Basic(**common)
    elif eng == "langevin":
        md = MD.Molecular_Dynamics_Langevin(damp=float(cfg["damp"]), **common)
    elif eng in ("xl", "cis_xl"):
        md = MD.XL_BOMD(damp=None, xl_bomd_params={"k": int(cfg["k"])}, **common)
    elif eng == "xl_damped":
        md = MD.XL_BOMD(damp=float(cfg["damp"]), xl_bomd_params={"k": int(cfg["k"])}, **common)
    elif eng in ("ksa", "ksa_damped"):
        md = MD.KSA_XL_BOMD(damp=(float(cfg["damp"]) if eng == "ksa_damped" else None), xl_bomd_params={"k": int(cfg["k"]), "max_rank": int(cfg.get("max_rank", 3)),
                                                       "err_threshold": 0.0, "T_el": float(cfg.get("T_el", 1500))},
                            **common)
    elif eng in ("fssh", "fssh_damped"):
        from seqm.NonadiabaticDynamics import SurfaceHoppingDynamics
        md = SurfaceHoppingDynamics(initial_state=int(cfg.get("initial_state", 1)),
                                    damp=(float(cfg["damp"]) if eng == "fssh_damped" else None), **common)
    else:
        raise ValueError("unknown engine %r" % eng)
    rc = cfg.get("remove_com")
    run_kw = dict(steps=int(cfg["steps"]), reuse_P=bool(cfg.get("reuse_P", True)),
                  remove_com=(tuple(rc) if rc else None), seed=int(cfg.get("seed", 0)))
    # optional run options that Molecular_Dynamics_Basic.run takes as keyword arguments
    if cfg.get("scale_vel"):
        run_kw["scale_vel"] = tuple(cfg["scale_vel"])
    if cfg.get("control_energy_shift"):
        run_kw["control_energy_shift"] = True
    return md, molecule, run_kw


def ckpt_path(cfg):
    return cfg["prefix"] + ".restart.pt"


def run_fresh(cfg):
    md, molecule, kw = build(cfg)
    md.run(molecule, **kw)


def run_resume(cfg):
    """Resume exactly the way a user does: the class' own run_from_checkpoint on the restart file."""
    if cfg["engine"] in ("fssh", "fssh_damped"):
        from seqm.NonadiabaticDynamics import SurfaceHoppingDynamics
        SurfaceHoppingDynamics.run_from_checkpoint(ckpt_path(cfg))
    else:
        from seqm.MolecularDynamics import Molecular_Dynamics_Basic
        Molecular_Dynamics_Basic.run_from_checkpoint(ckpt_path(cfg))


# =====================================================================================
# 2. child side: monitors + crash injection
# =====================================================================================
class Instrument:
    """Wraps the writers / checkpoint functions.  Every invocation is counted and logged
    (before / after) to the event file; a crash can be injected at (target, n, phase)."""

    def __init__(self, events_path, crash=None, log_calls=True):
        self.fd = os.open(events_path, os.O_WRONLY | os.O_CREAT | os.O_APPEND, 0o644)
        self.crash = crash
        self.counts = {}
        self.depth = {}
        self.log_calls = log_calls
        self.missing = []

    def log(self, d):
        os.write(self.fd, (json.dumps(d, default=repr) + "\n").encode())

    # -------------------------------------------------------------
    def _maybe_crash(self, target, n, phase):
        c = self.crash
        if not c or c["target"] != target or int(c["n"]) != n or c["phase"] != phase:
            return
        self.log({"ev": "crash", "t": target, "n": n, "ph": phase, "mode": c.get("mode", "exit")})
        if c.get("mode", "exit") == "raise":
            self.crash = None  # only once
            raise SimulatedCrash("injected at %s #%d %s" % (target, n, phase))
        os._exit(EXIT_CRASH)

    def wrap(self, owner, attr, target, info=None, post=None, always_log=False):
        try:
            raw = owner.__dict__[attr] if isinstance(owner, type) else getattr(owner, attr)
        except (KeyError, AttributeError):
            self.missing.append(target + ":" + attr)
            return
        is_static = isinstance(raw, staticmethod)
        orig = raw.__func__ if is_static else raw
        ins = self

        def wrapper(*a, **k):
            d = ins.depth.get(target, 0)
            if d:  # re-entrant call (e.g. super()): counted once at the outermost level
                return orig(*a, **k)
            ins.depth[target] = 1
            try:
                n = ins.counts.get(target, 0) + 1
                ins.counts[target] = n
                extra = {}
                if info is not None:
                    try:
                        extra = info(a, k) or {}
                    except Exception as exc:  # never let a monitor break the run
                        extra = {"info_error": repr(exc)}
                if ins.log_calls or always_log:
                    ins.log(dict({"ev": "call", "t": target, "n": n, "ph": "before"}, **extra))
                ins._maybe_crash(target, n, "before")
                res = orig(*a, **k)
                extra2 = {}
                if post is not None:
                    try:
                        extra2 = post(a, k, res) or {}
                    except Exception as exc:
                        extra2 = {"post_error": repr(exc)}
                if ins.log_calls or always_log:
                    ins.log(dict({"ev": "call", "t": target, "n": n, "ph": "after"}, **extra, **extra2))
                ins._maybe_crash(target, n, "after")
                return res
            finally:
                ins.depth[target] = 0

        wrapper.__name__ = getattr(orig, "__name__", attr)
        wrapper.__wrapped__ = orig
        setattr(owner, attr, staticmethod(wrapper) if is_static else wrapper)

    # -------------------------------------------------------------
    def install(self):
        import h5py
        import torch
        from seqm import MolecularDynamics as MD
        from seqm import NonadiabaticDynamics as NAD

        def cursors(w):
            out = {}
            for mol in w.config.molid:
                c = {"data": w.i_data.get(mol), "nonadiabatic": w.i_na.get(mol)}
                c.update(w.i_vec.get(mol) or {})
                out[str(mol)] = c
            return out

        def rows_written(w, before, after):
            """For every cursor that moved: (stream, mol, row, step label read back from the file)."""
            rows = []
            for mol, ca in after.items():
                cb = before.get(mol, {})
                for s, ia in ca.items():
                    ib = cb.get(s)
                    if ia is None or ib is None or ia == ib:
                        continue
                    h5 = w.handles[int(mol)]
                    path = {"data": "data/steps", "nonadiabatic": "data/nonadiabatic/steps"}.get(s, s + "/steps")
                    lab = [int(x) for x in h5[path][ib:ia]] if ia > ib else []
                    prev = int(h5[path][ib - 1]) if ib > 0 else None
                    rows.append({"s": s, "mol": int(mol), "row0": ib, "row1": ia, "labels": lab, "prev": prev})
            return rows

        state = {}

        def pre_append(a, k):
            state["cur"] = cursors(a[0])
            return {"step": int(a[1])}

        def post_append(a, k, res):
            return {"rows": rows_written(a[0], state.pop("cur", {}), cursors(a[0]))}

        for cls in (MD.Molecular_Dynamics_Basic, MD.Molecular_Dynamics_Langevin, MD.XL_BOMD, MD.KSA_XL_BOMD,
                    NAD.NonadiabaticDynamicsBase, NAD.SurfaceHoppingDynamics):
            if "_do_integrator_step" in cls.__dict__:
                self.wrap(cls, "_do_integrator_step", "step", info=lambda a, k: {"i": int(a[1])})
            if "save_checkpoint" in cls.__dict__:
                # always logged (also in strace children): "a checkpoint had been published" is part of the oracle
                self.wrap(cls, "save_checkpoint", "save_checkpoint", always_log=True,
                          info=lambda a, k: {"step_done": int(k.get("step_done", -1)), "steps": int(a[2])})
        self.wrap(MD.HDF5Writer, "append_data", "h5.append_data", info=pre_append, post=post_append)
        self.wrap(MD.HDF5Writer, "append_vectors", "h5.append_vectors", info=pre_append, post=post_append)
        self.wrap(MD.HDF5Writer, "append_nonadiabatic", "h5.append_nonadiabatic", info=pre_append, post=post_append)
        self.wrap(MD.HDF5Writer, "flush", "h5.flush")
        self.wrap(MD.HDF5Writer, "close", "h5.close")
        self.wrap(h5py.File, "flush", "h5file.flush")
        self.wrap(MD.XYZWriter, "write", "xyz.write", info=lambda a, k: {"label": int(a[1]) + 1})
        self.wrap(MD.XYZWriter, "flush", "xyz.flush")
        self.wrap(MD.XYZWriter, "close", "xyz.close")
        # the step label handed to the hop logger on every integrator step (HopEvent.step is taken from it)
        if "_after_electronic_update" in NAD.SurfaceHoppingDynamics.__dict__:
            self.wrap(NAD.SurfaceHoppingDynamics, "_after_electronic_update", "fssh.after_update", always_log=True,
                      info=lambda a, k: {"hop_step": (int(k["step"]) if k.get("step") is not None else None)})
        self.wrap(MD.Molecular_Dynamics_Basic, "_flush_all", "flush_all")
        self.wrap(MD.Molecular_Dynamics_Basic, "_atomic_save_checkpoint", "atomic_save")
        self.wrap(torch, "save", "torch.save")
        def path_info(a, k):
            return {"path": str(a[0])[-48:]} if a else {}
        import shutil
        self.wrap(os, "replace", "os.replace", info=path_info)
        # every other way a file can be renamed / removed while a checkpoint is being published
        self.wrap(os, "rename", "os.rename", info=path_info)
        self.wrap(os, "remove", "os.remove", info=path_info)
        self.wrap(os, "unlink", "os.unlink", info=path_info)
        self.wrap(shutil, "move", "shutil.move", info=path_info)
        if self.missing:
            self.log({"ev": "missing_symbols", "names": self.missing})


CRASH_TARGETS = ("step", "h5.append_data", "h5.append_vectors", "h5.append_nonadiabatic", "h5.flush", "h5file.flush",
                 "h5.close", "xyz.write", "xyz.flush", "xyz.close", "flush_all", "save_checkpoint", "atomic_save",
                 "torch.save", "os.replace", "os.rename", "os.remove", "os.unlink", "shutil.move")
PUBLICATION_TARGETS = ("torch.save", "os.replace", "os.rename", "os.remove", "os.unlink", "shutil.move")


def _die_with_parent():
    """Linux: deliver SIGKILL to this process when its parent dies (a watchdog that kills the worker must not leave
    children running)."""
    try:
        import ctypes
        ctypes.CDLL("libc.so.6", use_errno=True).prctl(1, signal.SIGKILL)   # PR_SET_PDEATHSIG
    except Exception:
        pass


def child_main(job):
    """Runs in a child process (forked or exec'ed).  Never returns: ends in os._exit."""
    _die_with_parent()
    out_fd = os.open(job["stdout"], os.O_WRONLY | os.O_CREAT | os.O_APPEND, 0o644)
    os.dup2(out_fd, 1)
    sys.stdout = os.fdopen(1, "w", buffering=1, closefd=False)
    ins = Instrument(job["events"], crash=job.get("crash"), log_calls=job.get("log_calls", True))
    code = 0
    try:
        import torch
        torch.set_num_threads(1)
        torch.set_default_dtype(torch.float64)
        action = job["action"]
        if action == "inspect":
            ins.log(dict({"ev": "inspect"}, **inspect_checkpoint(job["path"])))
        else:
            ins.install()
            ins.log({"ev": "begin", "action": action, "pid": os.getpid(), "t": time.time()})
            if action == "run":
                run_fresh(job["cfg"])
            elif action == "resume":
                run_resume(job["cfg"])
            else:
                raise ValueError(action)
            ins.log({"ev": "done", "t": time.time()})
    except SimulatedCrash:
        ins.log({"ev": "exception_crash_propagated"})
        code = EXIT_EXC_CRASH
    except BaseException as exc:  # the repository raised: this is an observation for the parent
        ins.log({"ev": "error", "type": type(exc).__name__, "msg": str(exc)[:500],
                 "tb": "".join(traceback.format_exception(exc))[-3000:]})
        code = EXIT_ERROR
    try:
        sys.stdout.flush()
    except Exception:
        pass
    os._exit(code)


def inspect_checkpoint(path):
    """Load a restart file the way the repository does and summarise it (JSON-able)."""
    import torch
    out = {"path": path, "exists": os.path.exists(path)}
    if not out["exists"]:
        return out
    try:
        ck = torch.load(path, map_location="cpu", weights_only=False)
    except BaseException as exc:
        out.update(loadable=False, error="%s: %s" % (type(exc).__name__, str(exc)[:300]))
        return out
    out["loadable"] = True
    out["step_done"] = int(ck.get("step_done", -1))
    out["steps"] = int(ck.get("steps", -1))
    out["keys"] = sorted(str(k) for k in ck.keys())
    mk = ck.get("molecules", {})
    out["molecule_keys"] = sorted(str(k) for k in mk.keys())
    out["has_rng"] = bool(isinstance(ck.get("rng"), dict) and ck["rng"].get("torch_cpu") is not None)
    names = set(out["keys"]) | set(out["molecule_keys"])
    out["has_charge"] = bool(names & {"tot_charge", "charges", "charge", "total_charge"})
    out["has_mult"] = bool(names & {"mult", "multiplicity"})
    out["has_orbitals"] = bool(torch.is_tensor(mk.get("molecular_orbitals")))

    def keys_deep(d, depth=0):
        for k, v in d.items():
            yield str(k)
            if isinstance(v, dict) and depth < 3:
                yield from keys_deep(v, depth + 1)
    deep = list(keys_deep(ck))
    out["has_scale_vel"] = any("scale_vel" in k for k in deep)
    out["has_energy_shift"] = any("energy_shift" in k for k in deep)
    return out


# =====================================================================================
# 3. parent side: child runners
# =====================================================================================
def _count_lines(path):
    try:
        with open(path, "rb") as f:
            return f.read().count(b"\n")
    except OSError:
        return 0


def _wait(pid, timeout, kill_after=None, kill_at=None):
    """-> (exit code or -signal, timed_out, killed_by_us).
    kill_after: seconds after the fork at which SIGKILL is sent.
    kill_at: (events_path, n_lines, delay): SIGKILL `delay` seconds after the child's event log reached n_lines
    lines - a random instant that does not depend on how loaded the machine is."""
    t0 = time.time()
    killed = False
    t_trigger = None
    while True:
        p, status = os.waitpid(pid, os.WNOHANG)
        if p == pid:
            if os.WIFSIGNALED(status):
                return -os.WTERMSIG(status), False, killed
            return os.WEXITSTATUS(status), False, killed
        now = time.time()
        el = now - t0
        if not killed:
            fire = kill_after is not None and el >= kill_after
            if kill_at is not None:
                if t_trigger is None and _count_lines(kill_at[0]) >= kill_at[1]:
                    t_trigger = now
                fire = fire or (t_trigger is not None and now - t_trigger >= kill_at[2])
            if fire:
                try:
                    os.kill(pid, signal.SIGKILL)
                except ProcessLookupError:
                    pass
                killed = True
        if el > timeout:
            try:
                os.kill(pid, signal.SIGKILL)
            except ProcessLookupError:
                pass
            os.waitpid(pid, 0)
            return None, True, killed
        time.sleep(0.001 if (kill_at is not None and not killed) else (0.002 if el < 1.0 else 0.01))


def fork_child(job, timeout=300.0, kill_after=None, kill_at=None):
    """Run `job` in a forked child of this (worker) process.  The worker itself must never have
    exercised torch kernels / opened HDF5 files at fork time beyond plain reads."""
    sys.stdout.flush()
    sys.stderr.flush()
    pid = os.fork()
    if pid == 0:
        try:
            child_main(job)
        finally:
            os._exit(99)
    if kill_at is not None:
        kill_at = (job["events"], kill_at[0], kill_at[1])
    code, timed_out, killed = _wait(pid, timeout, kill_after, kill_at)
    return {"code": code, "timed_out": timed_out, "killed": killed}


def exec_child(job, timeout=600.0, strace=None, kill_after_begin=None, trace_out=None):
    """Run `job` in a fresh interpreter.  strace: None | {"inject": "pwrite64", "when": N} |
    {"census": "pwrite64,write,..."} (writes the trace to trace_out).  kill_after_begin: seconds
    after the child logged its 'begin' event at which it is SIGKILLed."""
    jpath = job["events"] + ".job.json"
    with open(jpath, "w") as f:
        json.dump(job, f)
    cmd = [env.PY, "-m", "vlib.mdio", jpath]
    if strace:
        if "inject" in strace:
            cls = strace["inject"]
            pargs = []
            for pth in strace.get("paths") or []:   # -P restricts tracing AND the injection counter to these files
                pargs += ["-P", pth]
            cmd = ["strace", "-f", "-qq", "-o", "/dev/null"] + pargs + ["-e", "trace=" + cls,
                   "-e", "inject=%s:signal=KILL:when=%d" % (cls, int(strace["when"]))] + cmd
        else:
            cmd = ["strace", "-f", "-qq", "-y", "-o", trace_out, "-e", "trace=" + strace["census"]] + cmd
    p = subprocess.Popen(cmd, env=env.child_env(), cwd=env.VERIF, stdout=subprocess.DEVNULL,
                         stderr=subprocess.DEVNULL, start_new_session=True)
    t0 = time.time()
    t_begin = None
    killed = False
    while True:
        rc = p.poll()
        if rc is not None:
            break
        now = time.time()
        if kill_after_begin is not None and not killed:
            if t_begin is None:
                try:
                    if os.path.getsize(job["events"]) > 0:
                        t_begin = now
                except OSError:
                    pass
            if t_begin is not None and now - t_begin >= kill_after_begin:
                _killpg(p)
                killed = True
        if now - t0 > timeout:
            _killpg(p)
            p.wait()
            return {"code": None, "timed_out": True, "killed": killed}
        time.sleep(0.005)
    _killpg(p)  # strace -f leftovers
    return {"code": rc if rc >= 0 else rc, "timed_out": False, "killed": killed}


def _killpg(p):
    try:
        os.killpg(os.getpgid(p.pid), signal.SIGKILL)
    except (ProcessLookupError, PermissionError, OSError):
        pass


# =====================================================================================
# 4. readers
# =====================================================================================
def read_events(path):
    out = []
    try:
        with open(path) as f:
            for line in f:
                line = line.strip()
                if line:
                    try:
                        out.append(json.loads(line))
                    except ValueError:
                        out.append({"ev": "torn_event_line"})
    except FileNotFoundError:
        pass
    return out


def census(events):
    """number of invocations per crash target seen in an event log"""
    c = {}
    for e in events:
        if e.get("ev") == "call" and e.get("ph") == "before":
            c[e["t"]] = max(c.get(e["t"], 0), int(e["n"]))
    return c


def read_h5(path):
    """-> {"datasets": {path: ndarray}, "attrs": {...}} ; raises OSError if HDF5 cannot open it."""
    import h5py
    out = {}
    with h5py.File(path, "r") as h5:
        def visit(name, obj):
            if isinstance(obj, h5py.Dataset):
                out[name] = np.asarray(obj[()])
        h5.visititems(visit)
        attrs = {k: (v.item() if hasattr(v, "item") else v) for k, v in h5.attrs.items()}
    return {"datasets": out, "attrs": attrs}


def h5_streams(dsets):
    """Group the datasets of one file into streams: {stream: {"steps": arr, "rows": {path: arr}}}.
    A stream is a group owning a `steps` dataset; its row datasets are the datasets below that group
    (not below a nested stream) whose leading dimension is the stream's row count."""
    roots = sorted((p[: -len("/steps")] for p in dsets if p.endswith("/steps")), key=len, reverse=True)
    streams = {}
    claimed = set()
    for root in roots:
        name = {"data": "data", "data/nonadiabatic": "nonadiabatic",
                "data/excitation/transition_density_matrices": "tdm"}.get(root, root)
        steps = dsets[root + "/steps"]
        rows = {}
        for p, a in dsets.items():
            if p in claimed or not p.startswith(root + "/") or p == root + "/steps":
                continue
            if a.ndim >= 1:
                rows[p] = a
                claimed.add(p)
        claimed.add(root + "/steps")
        streams[name] = {"steps": steps, "rows": rows}
    return streams


_XYZ_HDR = re.compile(r"^step:\s*(-?\d+)\s+E_total\s*=\s*(\S+)\s*$")


def read_xyz(path):
    """-> (frames, problems).  frame = {"label": int, "E": float, "sym": [...], "xyz": ndarray}"""
    frames, problems = [], []
    with open(path) as f:
        lines = f.read().split("\n")
    if lines and lines[-1] == "":
        lines.pop()
    i = 0
    while i < len(lines):
        try:
            n = int(lines[i].strip())
        except ValueError:
            problems.append("line %d: expected atom count, got %r" % (i + 1, lines[i][:40]))
            break
        if i + 1 >= len(lines):
            problems.append("truncated frame at line %d" % (i + 1))
            break
        m = _XYZ_HDR.match(lines[i + 1].strip())
        if not m:
            problems.append("line %d: bad header %r" % (i + 2, lines[i + 1][:60]))
            break
        body = lines[i + 2: i + 2 + n]
        if len(body) < n:
            problems.append("truncated frame labelled %s" % m.group(1))
            break
        try:
            sym = [b.split()[0] for b in body]
            xyz = np.array([[float(t) for t in b.split()[1:4]] for b in body])
            if xyz.shape != (n, 3):
                raise ValueError("shape")
        except (ValueError, IndexError):
            problems.append("unparsable atom line in frame labelled %s" % m.group(1))
            break
        frames.append({"label": int(m.group(1)), "E": float(m.group(2)), "sym": sym, "xyz": xyz})
        i += 2 + n
    return frames, problems


# (\S+ also for the temperature: a line printing nan/inf must be parsed and judged, not silently dropped)
_THERMO = re.compile(r"^\s*(\d+)((?:\s+\S+\s+\S+\s+\S+\s+\S+\s+\|\|)+)\s*$")


def read_thermo_lines(path):
    """Parse the screen-output lines of Molecular_Dynamics_Basic._output_to_screen.
    -> list of (step, [(T, Ek, V, Etot) per printed molecule])"""
    out = []
    try:
        with open(path) as f:
            for line in f:
                m = _THERMO.match(line.rstrip("\n"))
                if not m:
                    continue
                vals = []
                for chunk in m.group(2).split("||"):
                    t = chunk.split()
                    if len(t) == 4:
                        vals.append(tuple(float(x) for x in t))
                out.append((int(m.group(1)), vals))
    except FileNotFoundError:
        pass
    return out


_HOP_HDR = re.compile(r"^Hop events for molecule (\S+):")
_HOP_EV = re.compile(r"^\s+step\s+(-?\d+):\s+S(\d+)\s+->\s+S(\d+)\s+\((\w+)")


def read_hop_log(path):
    """Hop log printed at the end of a surface-hopping run -> sorted list of (mol, step, from, to, status)."""
    out, mol = [], None
    try:
        with open(path) as f:
            for line in f:
                m = _HOP_HDR.match(line)
                if m:
                    mol = m.group(1)
                    continue
                m = _HOP_EV.match(line)
                if m and mol is not None:
                    out.append((mol, int(m.group(1)), int(m.group(2)), int(m.group(3)), m.group(4)))
    except FileNotFoundError:
        pass
    return sorted(out)


def hop_step_labels(events):
    """[(i, label)] : integrator step index i (from the wrapper on _do_integrator_step) and the step label that the
    same step handed to the hop logger (wrapper on SurfaceHoppingDynamics._after_electronic_update)."""
    out, cur = [], None
    for e in events:
        if e.get("ev") != "call" or e.get("ph") != "before":
            continue
        if e.get("t") == "step":
            cur = e.get("i")
        elif e.get("t") == "fssh.after_update":
            out.append((cur, e.get("hop_step")))
    return out


def run_files(cfg):
    """Every file belonging to the run's prefix (name -> size)."""
    d, base = os.path.split(cfg["prefix"])
    out = {}
    for fn in sorted(os.listdir(d)):
        if fn.startswith(base + "."):
            out[fn[len(base) + 1:]] = os.path.getsize(os.path.join(d, fn))
    return out


# =====================================================================================
# 5. oracles
# =====================================================================================
def due_steps(cadence, nsteps, initial=True, after=0):
    """[0] + multiples of cadence <= nsteps (empty when cadence == 0)."""
    c = int(cadence)
    if c <= 0:
        return []
    out = [0] if (initial and after == 0) else []
    out += [s for s in range(c, int(nsteps) + 1, c) if s > after]
    return out


def real_atoms(cfg, mol):
    S, _, _, _ = geometry(cfg)
    return int(sum(1 for z in S[mol] if z > 0))


def exceeds(x, bound):
    """True when x is larger than bound OR not a number (a plain `x > bound` is False for NaN)."""
    return not (x <= bound)


def close(a, b, atol=1e-9, rtol=1e-9):
    """Element-wise |a-b| <= atol + rtol*|b|.  NaN policy (explicit): a NaN/inf that the reference holds at the same
    position with the same value counts as equal (the clause is equality with the reference run; the writer stores NaN
    on purpose for undefined entries); a non-finite value anywhere else makes the comparison fail with ratio inf."""
    a = np.asarray(a, dtype=float)
    b = np.asarray(b, dtype=float)
    if a.shape != b.shape:
        return False, float("inf")
    if a.size == 0:
        return True, 0.0
    with np.errstate(invalid="ignore"):
        same = (a == b) | (np.isnan(a) & np.isnan(b))       # identical entries, incl. identical NaN / inf
        d = np.where(same, 0.0, np.abs(a - b))
    if not np.isfinite(d).all():                            # a non-finite value the reference does not share
        return False, float("inf")
    bound = atol + rtol * np.abs(np.where(np.isfinite(b), b, 0.0))
    r = float(np.max(d / bound))
    return bool(r <= 1.0), r


def compare_stream_to_reference(name, st, ref_st, expected_steps, atol=1e-9, rtol=1e-9, skip=()):
    """One stream of one file against the same stream of the cadence-1 reference run.
    `steps` must equal expected_steps exactly.  Every row is then judged against the reference row of
    the step it is LABELLED with (so a wrong row set and wrong values are reported separately); a
    row whose label does not increase is an unwritten filler row (all zero) or a stale row.
    -> (problems list, worst ratio observed/bound, bitwise_equal bool, rows compared)"""
    probs = []
    steps = [int(x) for x in np.asarray(st["steps"]).reshape(-1)]
    worst, bitwise, nrows = 0.0, True, 0
    if steps != list(expected_steps):
        probs.append({"what": "steps", "stream": name, "observed": steps, "expected": list(expected_steps)})
    ref_index = {int(s): i for i, s in enumerate(np.asarray(ref_st["steps"]).reshape(-1))}
    live = []
    for j, s in enumerate(steps):
        if j > 0 and s <= max(steps[:j]):
            zero = all(bool(np.all(arr[j] == 0)) for arr in st["rows"].values() if arr.shape[0] == len(steps))
            probs.append({"what": "filler-row" if (zero and s == 0) else "stale-row", "stream": name, "row": j,
                          "label": s})
        else:
            live.append((j, s))
    for p, arr in st["rows"].items():
        if p.startswith(tuple(skip)) if skip else False:
            continue
        if arr.shape[0] != len(steps):
            probs.append({"what": "row-count", "stream": name, "dataset": p, "rows": int(arr.shape[0]),
                          "steps_len": len(steps)})
            continue
        rp = ref_st["rows"].get(p)
        if rp is None:
            probs.append({"what": "dataset-missing-in-reference", "stream": name, "dataset": p})
            continue
        for j, s in live:
            if s not in ref_index:
                probs.append({"what": "label-not-a-step-of-the-run", "stream": name, "row": j, "label": s})
                continue
            ok, r = close(arr[j], rp[ref_index[s]], atol, rtol)
            nrows += 1
            worst = max(worst, r if math.isfinite(r) else 1e300)
            if not np.array_equal(arr[j], rp[ref_index[s]], equal_nan=True):
                bitwise = False
            if not ok:
                probs.append({"what": "value", "stream": name, "dataset": p, "row": j, "step": int(s), "ratio": r})
    for p in ref_st["rows"]:
        if p not in st["rows"] and not (skip and p.startswith(tuple(skip))):
            probs.append({"what": "dataset-missing", "stream": name, "dataset": p})
    return probs, worst, bitwise, nrows


def compare_h5_files(got, ref, atol=1e-9, rtol=1e-9):
    """Whole-file equality (C10): same dataset names, same shapes, `steps` exactly, values within
    atol/rtol.  -> (problems, worst ratio, bitwise, datasets compared)"""
    probs, worst, bitwise, n = [], 0.0, True, 0
    dg, dr = got["datasets"], ref["datasets"]
    for p in sorted(set(dg) | set(dr)):
        if p not in dg:
            probs.append({"what": "dataset-missing", "dataset": p})
            continue
        if p not in dr:
            probs.append({"what": "dataset-extra", "dataset": p})
            continue
        a, b = dg[p], dr[p]
        n += 1
        if a.shape != b.shape:
            probs.append({"what": "shape", "dataset": p, "observed": list(a.shape), "expected": list(b.shape)})
            continue
        if p.endswith("steps") or a.dtype.kind in "iu":
            if not np.array_equal(a, b):
                probs.append({"what": "steps" if p.endswith("steps") else "int-value", "dataset": p,
                              "observed": np.asarray(a).reshape(-1)[:40].tolist(),
                              "expected": np.asarray(b).reshape(-1)[:40].tolist()})
            continue
        if not np.array_equal(a, b, equal_nan=True):
            bitwise = False
        ok, r = close(a, b, atol, rtol)
        worst = max(worst, r if math.isfinite(r) else 1e300)
        if not ok:
            first = None
            if a.ndim >= 1:
                for j in range(a.shape[0]):
                    if not close(a[j], b[j], atol, rtol)[0]:
                        first = j
                        break
            probs.append({"what": "value", "dataset": p, "ratio": r, "first_bad_row": first,
                          "row_all_zero": bool(first is not None and np.all(a[first] == 0))})
    if got["attrs"] != ref["attrs"]:
        probs.append({"what": "attrs", "observed": got["attrs"], "expected": ref["attrs"]})
    return probs, worst, bitwise, n


def check_cursor_log(events, cad):
    """Writer-cursor invariant from the logged appends: every append moves each cursor by at most one
    row; a written row carries the step of the call, lands in row step//cadence (row 0 = initial
    snapshot), and its label is strictly larger than the previous row's.  -> (problems, n rows seen)"""
    probs, n = [], 0
    for e in events:
        if e.get("ev") != "call" or e.get("ph") != "after" or "rows" not in e:
            continue
        for r in e["rows"]:
            n += 1
            c = int(cad.get(r["s"], 0))
            bad = None
            if r["row1"] - r["row0"] != 1:
                bad = "cursor moved by %d" % (r["row1"] - r["row0"])
            elif r["labels"] != [e["step"]]:
                bad = "row label %r != step of the call %r" % (r["labels"], e["step"])
            elif c <= 0 or e["step"] % c != 0:
                bad = "row written at step %d which is not a multiple of cadence %d" % (e["step"], c)
            elif r["row0"] != e["step"] // c:
                bad = "step %d stored in row %d, expected row %d" % (e["step"], r["row0"], e["step"] // c)
            elif r["prev"] is not None and not r["prev"] < e["step"]:
                bad = "previous row label %d is not smaller than %d" % (r["prev"], e["step"])
            if bad:
                probs.append({"stream": r["s"], "mol": r["mol"], "step": e["step"], "row": r["row0"], "problem": bad})
    return probs, n


if __name__ == "__main__":
    with open(sys.argv[1]) as _f:
        child_main(json.load(_f))
