"""Monitors and independent post-condition oracles for the SCF solvers (used by C03 and C04).

Runs inside a worker (needs torch + the repository on PYTHONPATH).

* `LoopWatch`   sys.monitoring JUMP-event counters on the *back-edges* of every loop of a given set of
                repository functions (loop heads are discovered from the bytecode, no line numbers are
                hard-coded), with a raising failpoint when a per-entry count exceeds its bound, and
                PY_RETURN frame readers (used to read the KSA solver's last-iteration errors).
* `ErrorLog`    wrapper around `scf_loop.get_error` that recomputes, from the raw arguments and
                independently of the wrapped function, the three/four-part convergence test and keeps the
                per-iteration record.
* `residuals`   post-conditions on a returned density: symmetry, trace, idempotency, commutator with a Fock
                matrix rebuilt from that density, aufbau re-diagonalisation, energy functional, padding clean.
"""
import dis
import sys

import numpy as np
import torch

# The stopping rule the repository documents (scf_loop.get_error): these numbers are the harness' own copy
# of the specification, deliberately NOT read from the module under test.
K_DE = 1.0       # |dE|            <= K_DE  * eps
K_RMS = 2.0      # rms dP          <= K_RMS * eps
K_MAX = 15.0     # max |dP_ij|     <= K_MAX * eps
K_DIIS = 50.0    # max |[F,P]_ij|  <= K_DIIS* eps   (Pulay only)

SP2_MIN, SP2_MAX = 1.0e-7, 1.0e-3   # SP2 clamps its tolerance into this interval (float64), documented in SP2.py


class FailPoint(Exception):
    """raised from inside a monitored loop whose logical step count exceeded its bound"""

    def __init__(self, loop, count, bound):
        Exception.__init__(self, "loop %s exceeded %d back-edges (bound %d)" % (loop, count, bound))
        self.loop, self.count, self.bound = loop, count, bound


class MissingSymbol(Exception):
    pass


def sp2_eff(sp2):
    """tolerance SP2 actually uses (clamped), 0.0 when SP2 is off.  sp2: None | float"""
    if not sp2:
        return 0.0
    return float(min(max(float(sp2), SP2_MIN), SP2_MAX))


# ---------------------------------------------------------------------------------------------------
# loop counters / failpoints
# ---------------------------------------------------------------------------------------------------
def _loop_heads(code):
    """offsets of loop heads = targets of backward jumps, sorted; with (last back-edge source) extents"""
    heads = {}
    for ins in dis.get_instructions(code):
        if ins.opname.startswith("JUMP_BACKWARD"):
            tgt = ins.argval
            heads[tgt] = max(heads.get(tgt, 0), ins.offset)
    return sorted(heads.items())


def _line_of(code, offset):
    line = code.co_firstlineno
    for off, ln in dis.findlinestarts(code):
        if off > offset:
            break
        if ln is not None:
            line = ln
    return line


class LoopWatch:
    TOOL = None

    def __init__(self):
        self.codes = {}          # code -> {"name":, "heads": [(offset, extent, key)], "count": {offset: n}}
        self.max_seen = {}       # key -> max per-entry count
        self.entries = {}        # key -> number of times any back-edge of that loop fired at all (events)
        self.calls = {}          # function name -> calls
        self.bounds = {}         # key -> bound
        self.default_bound = 100000
        self.return_readers = {}  # code -> callable(frame_locals)
        self.fail_readers = {}    # code -> callable(frame_locals) -> dict, evaluated when a failpoint fires
        self.frame_hooks = {}     # code -> {"start"|"backedge"|"return": callable(frame)}
        self.fired = None
        self.missing = []
        self.installed = False

    # -- registration --------------------------------------------------------------------------
    def watch(self, func, name=None):
        code = getattr(func, "__code__", None)
        if code is None:
            self.missing.append(name or repr(func))
            return []
        name = name or code.co_name
        heads = []
        for i, (off, ext) in enumerate(_loop_heads(code)):
            key = "%s#%d" % (name, i)
            heads.append((off, ext, key))
        self.codes[code] = {"name": name, "heads": heads, "count": {h[0]: 0 for h in heads},
                            "key": {h[0]: h[2] for h in heads}, "lines": {h[2]: _line_of(code, h[0]) for h in heads}}
        return [h[2] for h in heads]

    def loops(self):
        return {k: v for c in self.codes.values() for k, v in c["lines"].items()}

    def on_return(self, func, reader):
        self.return_readers[func.__code__] = reader

    def on_fail(self, func, reader):
        self.fail_readers[func.__code__] = reader

    def on_frames(self, func, start=None, backedge=None, ret=None):
        """callbacks that receive the live frame of `func` at its start, at every loop back-edge and at return"""
        self.frame_hooks[func.__code__] = {"start": start, "backedge": backedge, "return": ret}

    def _hook(self, code, which):
        h = self.frame_hooks.get(code)
        if h is not None and h.get(which) is not None:
            try:
                h[which](sys._getframe(2))
            except Exception:   # a hook must never disturb the monitored code
                pass

    def set_bound(self, key_prefix, bound):
        for c in self.codes.values():
            for _, _, key in c["heads"]:
                if key == key_prefix or key.startswith(key_prefix + "#"):
                    self.bounds[key] = int(bound)

    # -- callbacks -----------------------------------------------------------------------------
    def _start(self, code, offset):
        c = self.codes.get(code)
        if c is not None:
            self.calls[c["name"]] = self.calls.get(c["name"], 0) + 1
            for off in c["count"]:
                c["count"][off] = 0
        if code in self.frame_hooks:
            self._hook(code, "start")

    def _jump(self, code, src, dst):
        if dst >= src:
            return
        c = self.codes.get(code)
        if c is None or dst not in c["count"]:
            return
        if code in self.frame_hooks:
            self._hook(code, "backedge")
        cnt = c["count"]
        cnt[dst] += 1
        n = cnt[dst]
        key = c["key"][dst]
        if n == 1:
            self.entries[key] = self.entries.get(key, 0) + 1
        if n > self.max_seen.get(key, 0):
            self.max_seen[key] = n
        # loops nested inside [dst, src] start a fresh entry
        for off, ext, _ in c["heads"]:
            if dst < off <= src and off != dst:
                cnt[off] = 0
        b = self.bounds.get(key, self.default_bound)
        if n > b:
            self.fired = {"loop": key, "line": c["lines"][key], "count": n, "bound": b}
            fr = self.fail_readers.get(code)
            if fr is not None:
                try:
                    self.fired["state"] = fr(dict(sys._getframe(1).f_locals))
                except Exception as exc:
                    self.fired["state"] = {"reader_error": repr(exc)}
            raise FailPoint(key, n, b)

    def _ret(self, code, offset, retval):
        if code in self.frame_hooks:
            self._hook(code, "return")
        r = self.return_readers.get(code)
        if r is not None:
            try:
                r(dict(sys._getframe(1).f_locals))
            except Exception:  # a reader must never disturb the monitored code
                pass

    # -- life cycle ----------------------------------------------------------------------------
    def install(self):
        mon = sys.monitoring
        if LoopWatch.TOOL is None:
            for tid in (4, 3, 5, 2, 1):
                try:
                    mon.use_tool_id(tid, "verif-scfmon")
                    LoopWatch.TOOL = tid
                    break
                except ValueError:
                    continue
            if LoopWatch.TOOL is None:
                raise RuntimeError("no free sys.monitoring tool id")
        t = LoopWatch.TOOL
        E = mon.events
        mon.register_callback(t, E.JUMP, self._jump)
        mon.register_callback(t, E.PY_START, self._start)
        mon.register_callback(t, E.PY_RETURN, self._ret)
        for code in self.codes:
            ev = E.JUMP | E.PY_START
            if code in self.return_readers or code in self.frame_hooks:
                ev |= E.PY_RETURN
            mon.set_local_events(t, code, ev)
        for code in self.return_readers:
            if code not in self.codes:
                mon.set_local_events(t, code, E.PY_RETURN)
        self.installed = True

    def uninstall(self):
        if not self.installed:
            return
        mon = sys.monitoring
        t = LoopWatch.TOOL
        for code in list(self.codes) + list(self.return_readers):
            mon.set_local_events(t, code, 0)
        for ev in (mon.events.JUMP, mon.events.PY_START, mon.events.PY_RETURN):
            mon.register_callback(t, ev, None)
        self.installed = False

    def reset_case(self):
        self.max_seen = {}
        self.entries = {}
        self.calls = {}
        self.fired = None


def standard_watch(cap, conv_max, sp2_bound, extra=True):
    """LoopWatch over every data-dependent loop reachable from a single-point call.
    cap: iteration cap in force (scf_loop.MAX_ITER); conv_max: {prefix: largest count any converging run shows}
    bound(loop) = max(10*conv_max, structural cap + 2)."""
    from seqm.seqm_functions import SP2 as sp2m
    from seqm.seqm_functions import canon_dm_prt as cdp
    from seqm.seqm_functions import fermi_q as fq
    from seqm.seqm_functions import scf_loop as sl

    lw = LoopWatch()
    want = [(sp2m, "SP2"), (sl, "scf_forward0"), (sl, "scf_forward1"), (sl, "scf_forward2"), (sl, "scf_forward3"),
            (sl, "adaptive_mix"), (fq, "Fermi_Q"), (cdp, "Canon_DM_PRT")]
    if extra:
        want += [(sl, "fixed_point_anderson"), (sl, "fixed_point_picard")]
    for mod, nm in want:
        f = getattr(mod, nm, None)
        if f is None:
            lw.missing.append(mod.__name__ + "." + nm)
            continue
        lw.watch(f, nm)
    struct = {"SP2": sp2_bound, "scf_forward0": cap + 2, "scf_forward1": cap + 2, "scf_forward2": cap + 2,
              "scf_forward3": cap + 2, "adaptive_mix": 22, "Fermi_Q": 66, "Canon_DM_PRT": 66,
              "fixed_point_anderson": 202, "fixed_point_picard": 202}
    for nm, sb in struct.items():
        lw.set_bound(nm, max(10 * int(conv_max.get(nm, 0)), sb))
    if hasattr(sp2m, "SP2"):
        lw.on_fail(sp2m.SP2, sp2_state_reader)
    return lw


class SP2SweepLog:
    """how many purification sweeps every row of every SP2 call needed (a row's count = sweeps in which it was still
    active), mapped to the molecule rows of the SCF batch through the `notconverged` mask of the calling
    scf_forward* frame.  `rows[b]` = list of sweep counts of molecule b, one per SCF iteration it took part in."""

    def __init__(self):
        self.rows = {}
        self.calls = 0
        self.uneven_calls = 0
        self.max_spread = 0
        self._cur = None

    def attach(self, lw, sp2func):
        lw.on_frames(sp2func, start=self._start, backedge=self._back, ret=self._ret)

    def _start(self, frame):
        self._cur = None

    def _back(self, frame):
        nc = frame.f_locals.get("notconverged")
        if torch.is_tensor(nc):
            a = nc.detach().numpy().astype(int)
            if self._cur is None or len(self._cur) != len(a):
                self._cur = np.ones(len(a), int)
            self._cur = self._cur + a

    def _ret(self, frame):
        cur = self._cur
        if cur is None:
            a = frame.f_locals.get("a")
            cur = np.ones(int(a.shape[0]) if torch.is_tensor(a) else 1, int)
        self._cur = None
        rows = None
        f = frame.f_back
        for _ in range(8):
            if f is None:
                break
            if f.f_code.co_name.startswith("scf_forward"):
                m = f.f_locals.get("notconverged")
                if torch.is_tensor(m):
                    rows = torch.nonzero(m.detach()).reshape(-1).tolist()
                break
            f = f.f_back
        if rows is None or len(rows) != len(cur):
            rows = list(range(len(cur)))
        for b, n in zip(rows, cur.tolist()):
            self.rows.setdefault(int(b), []).append(int(n))
        self.calls += 1
        spread = int(cur.max() - cur.min()) if len(cur) else 0
        if spread > 0:
            self.uneven_calls += 1
        self.max_spread = max(self.max_spread, spread)


def sp2_state_reader(loc):
    """state of a stuck SP2 call, read from its frame: for every still-active row, how many rows of the packed
    Fock matrix are identically zero (= padding orbitals of a heterogeneous batch, seen by SP2 as levels at
    exactly 0 eV) and whether the Fermi level falls inside that degenerate set."""
    a, nocc, nc = loc.get("a"), loc.get("nocc"), loc.get("notconverged")
    rows = []
    if not (torch.is_tensor(a) and torch.is_tensor(nocc) and torch.is_tensor(nc)):
        return {"rows": rows}
    for b in torch.nonzero(nc).reshape(-1).tolist():
        A = a[b].detach()
        zero_rows = int(((A.abs().sum(dim=1)) == 0).sum())
        e = torch.linalg.eigvalsh(A)
        n_below = int((e < -1e-9).sum())
        n_zero = int((e.abs() <= 1e-9).sum())
        no = int(nocc[b])
        rows.append({"row": b, "n": int(A.shape[0]), "zero_rows": zero_rows, "n_levels_below_zero": n_below,
                     "n_levels_at_zero": n_zero, "nocc": no,
                     "padding_levels_straddle_fermi": bool(zero_rows > 0 and n_below < no < n_below + n_zero)})
    return {"rows": rows, "errm0": [float(x) for x in loc["errm0"].reshape(-1)[:8]] if torch.is_tensor(loc.get("errm0")) else None}


# ---------------------------------------------------------------------------------------------------
# per-iteration error log (wrapper on scf_loop.get_error)
# ---------------------------------------------------------------------------------------------------
class ErrorLog:
    """Re-derives the convergence mask from the raw arguments handed to get_error, using the *requested*
    threshold (not the `eps` argument) and the harness' own copy of the factors."""

    def __init__(self, req_eps):
        self.req_eps = float(req_eps)
        self.orig = None
        self.mod = None
        self.reset()

    def reset(self):
        self.calls = 0
        self.conv = None          # harness-side "converged so far" mask (numpy bool)
        self.last = None          # last per-row record
        self.first_conv_iter = None
        self.eps_arg_seen = set()
        self.ret_mask = None      # mask returned by the wrapped function at the last call
        self.history = []         # compact per-iteration record (max over active rows)
        self.P_judged = None      # per row: the iterate the last convergence decision was taken on
        self.saw_diis = False     # a DIIS error was handed to get_error at least once

    def install(self):
        from seqm.seqm_functions import scf_loop as sl

        if not hasattr(sl, "get_error"):
            raise MissingSymbol("seqm.seqm_functions.scf_loop.get_error")
        self.mod = sl
        self.orig = sl.get_error
        log = self
        orig = self.orig

        def get_error(Pold, P, notconverged, matrix_size_sqrt, dm_err, dm_element_err, Eelec_new, err, Eelec, eps,
                      diis_error=None, unrestricted=False):
            # independent evaluation, before the wrapped function touches its in/out arguments
            with torch.no_grad():
                act = notconverged.detach().clone()
                dE = (Eelec_new.detach() - Eelec.detach()).abs()
                dP = (P.detach() - Pold.detach())
                if unrestricted or dP.dim() == 4:
                    dP = dP.sum(dim=1)
                rms = torch.linalg.norm(dP, dim=(1, 2)) / matrix_size_sqrt.to(dP.dtype)
                mx = dP.abs().amax(dim=(1, 2))
                di = diis_error.detach().clone() if diis_error is not None else None
                if log.P_judged is None:
                    log.P_judged = P.detach().clone()
                else:
                    log.P_judged[act] = P.detach()[act]
            out = orig(Pold, P, notconverged, matrix_size_sqrt, dm_err, dm_element_err, Eelec_new, err, Eelec, eps,
                       diis_error=diis_error, unrestricted=unrestricted)
            try:
                log._record(act.numpy(), dE.numpy(), rms.numpy(), mx.numpy(), None if di is None else di.numpy(),
                            float(eps), out[0].detach().numpy().copy())
            except Exception as exc:  # never disturb the monitored code
                log.error = repr(exc)
            return out

        get_error.__wrapped__ = orig
        sl.get_error = get_error

    def uninstall(self):
        if self.mod is not None and self.orig is not None:
            self.mod.get_error = self.orig
        self.orig = None

    def _record(self, act, dE, rms, mx, di, eps_arg, ret_mask):
        e = self.req_eps
        self.calls += 1
        self.eps_arg_seen.add(eps_arg)
        n = len(act)
        if self.conv is None:
            self.conv = np.zeros(n, bool)
            self.first_conv_iter = np.full(n, -1)
        ok = (dE <= K_DE * e) & (rms <= K_RMS * e) & (mx <= K_MAX * e)
        if di is not None:
            ok &= (di <= K_DIIS * e)
        # NaN never counts as converged
        ok &= np.isfinite(dE) & np.isfinite(rms) & np.isfinite(mx)
        newly = act & ok & ~self.conv
        self.first_conv_iter[newly] = self.calls
        # a row that the code keeps iterating (still active) is judged on its latest errors
        self.conv = np.where(act, ok, self.conv)
        if self.last is None:
            self.last = {"dE": np.full(n, np.nan), "rms": np.full(n, np.nan), "max": np.full(n, np.nan),
                         "diis": np.full(n, np.nan), "iter": np.zeros(n, int)}
        for k, v in (("dE", dE), ("rms", rms), ("max", mx)):
            self.last[k][act] = v[act]
        if di is not None:
            self.saw_diis = True
            self.last["diis"][act] = di[act]
        self.last["iter"][act] = self.calls
        self.ret_mask = ret_mask
        if act.any():
            self.history.append([float(np.nanmax(dE[act])), float(np.nanmax(rms[act])), float(np.nanmax(mx[act]))])
            if len(self.history) > 16:
                del self.history[0]

    def contraction(self, m=5):
        """observed linear convergence factor rho of max|dP| over the last m iterations (0 when too few iterations
        or super-linear); the a-posteriori error bound of a linearly convergent iteration is rho/(1-rho) |dP_last|"""
        h = [x[2] for x in self.history if np.isfinite(x[2]) and x[2] > 0]
        if len(h) < 3:
            return 0.0
        m = min(m, len(h) - 1)
        rho = (h[-1] / h[-1 - m]) ** (1.0 / m)
        return float(min(max(rho, 0.0), 0.98))


# ---------------------------------------------------------------------------------------------------
# independent post-conditions on a returned density
# ---------------------------------------------------------------------------------------------------
def real_orbital_index(Zrow):
    """AO indices (in the 4-per-atom padded layout) that carry a basis function: s,px,py,pz on heavy atoms,
    s on hydrogen, nothing on padding."""
    idx = []
    for a, z in enumerate(Zrow):
        if z > 1:
            idx += [4 * a, 4 * a + 1, 4 * a + 2, 4 * a + 3]
        elif z == 1:
            idx.append(4 * a)
    return np.array(idx, dtype=int)


def electron_counts(Zrow, charge, mult, valence):
    nel = int(sum(valence[z] for z in Zrow if z > 0) - int(round(charge)))
    na = (nel + int(round(mult)) - 1) // 2
    return nel, na, nel - na


def rebuild_fock(mol, P):
    """Fock matrix and core Hamiltonian rebuilt by the repository's own builders from density P
    (torch tensor in the padded layout).  -> (F, H) numpy, F like P, H [nmol, n, n] symmetric."""
    from seqm.seqm_functions.fock import fock as fock_r
    from seqm.seqm_functions.fock_u_batch import fock_u_batch
    from seqm.seqm_functions.hcore import hcore

    if mol.method == "PM6":
        raise NotImplementedError("sp methods only")
    with torch.no_grad():
        M, w = hcore(mol)[:2]
        par = mol.parameters
        W = torch.tensor([0])
        f = fock_u_batch if P.dim() == 4 else fock_r
        nmol = int(mol.nHeavy.shape[0])
        F = f(nmol, mol.molsize, P, M, mol.maskd, mol.mask, mol.idxi, mol.idxj, w, W, par["g_ss"], par["g_pp"],
              par["g_sp"], par["g_p2"], par["h_sp"], mol.method, par["s_orb_exp_tail"], par["p_orb_exp_tail"],
              par["d_orb_exp_tail"], mol.Z, par["F0SD"], par["G2SD"])
        Hc = M.reshape(nmol, mol.molsize, mol.molsize, 4, 4).transpose(2, 3).reshape(nmol, 4 * mol.molsize, 4 * mol.molsize)
        H = Hc.triu() + Hc.triu(1).transpose(1, 2)
    return F.numpy().copy(), H.numpy().copy()


def residuals(Zrow, P, F, H, nel, na, nb, Eelec, qrow, charge):
    """All residuals of one molecule (row) from numpy arrays in the padded layout.
    P, F: [n,n] (restricted, occupation 2) or [2,n,n] (unrestricted, occupation 1)."""
    idx = real_orbital_index(Zrow)
    ix = np.ix_(idx, idx)
    out = {}
    uhf = P.ndim == 3
    Ps = [P[0], P[1]] if uhf else [P]
    Fs = [F[0], F[1]] if uhf else [F]
    occ = 1.0 if uhf else 2.0
    nocc = [na, nb] if uhf else [nel // 2]
    # padding clean: nothing outside the real-orbital block
    pad = 0.0
    for Pm in Ps:
        mask = np.ones(Pm.shape, bool)
        mask[ix] = False
        if mask.any():
            pad = max(pad, float(np.abs(Pm[mask]).max()))
    out["padding"] = pad
    out["finite"] = bool(all(np.isfinite(Pm).all() for Pm in Ps) and np.isfinite(Eelec))
    if not out["finite"]:
        return out
    out["symmetry"] = max(float(np.abs(Pm - Pm.T).max()) for Pm in Ps)
    out["trace"] = abs(sum(float(np.trace(Pm)) for Pm in Ps) - nel)
    out["trace_spin"] = max(abs(float(np.trace(Pm)) - occ * n) for Pm, n in zip(Ps, nocc))
    out["charge_sum"] = abs(float(np.sum(qrow)) - charge)
    idem, comm, repro, gaps = 0.0, 0.0, 0.0, []
    E = 0.0
    Hs = H[ix]
    for Pm, Fm, n in zip(Ps, Fs, nocc):
        p, f = Pm[ix], Fm[ix]
        idem = max(idem, float(np.abs(p @ p - occ * p).max()))
        comm = max(comm, float(np.abs(f @ p - p @ f).max()))
        fs = 0.5 * (f + f.T)
        e, v = np.linalg.eigh(fs)
        if 0 < n < len(e):
            gaps.append(float(e[n] - e[n - 1]))
        pa = occ * (v[:, :n] @ v[:, :n].T)
        repro = max(repro, float(np.abs(pa - p).max()))
        E += 0.5 * float(np.sum(p * (Hs + f)))
    out["fock_asym"] = max(float(np.abs(Fm[ix] - Fm[ix].T).max()) for Fm in Fs)
    out["idempotency"] = idem
    out["commutator"] = comm
    out["reproduction"] = repro
    out["gap"] = min(gaps) if gaps else None
    out["energy"] = abs(E - float(Eelec))
    out["E_functional"] = E
    return out


R1_METHODS = ("MNDO", "AM1", "PM3")
R1_DF = 1.0e-6   # eV: agreement allowance between the repository's and the reference model's Fock elements (DESIGN §5)


def r1_residuals(method, Zrow, Xrow, P, F_repo, nel, na, nb):
    """second, independent rebuild: Fock matrix from vlib.ref.nddo (written from the published equations) at
    the returned density.  -> dict(commutator, reproduction, gap, dF) or None when the model does not apply."""
    if method not in R1_METHODS:
        return None
    from vlib.ref import nddo

    real = [i for i, z in enumerate(Zrow) if z > 0]
    Z = [int(Zrow[i]) for i in real]
    X = np.asarray(Xrow, float)[real]
    mdl = nddo.Model(method, Z, X)
    idx = real_orbital_index(Zrow)
    ix = np.ix_(idx, idx)
    uhf = P.ndim == 3
    if uhf:
        Ps = [P[0][ix], P[1][ix]]
        Fs = list(mdl.fock_uhf(Ps[0], Ps[1]))
        Fr = [F_repo[0][ix], F_repo[1][ix]]
        occ, nocc = 1.0, [na, nb]
    else:
        Ps = [P[ix]]
        Fs = [mdl.fock_rhf(Ps[0])]
        Fr = [F_repo[ix]]
        occ, nocc = 2.0, [nel // 2]
    comm, repro, gaps, dF = 0.0, 0.0, [], 0.0
    for p, f, fr, n in zip(Ps, Fs, Fr, nocc):
        comm = max(comm, float(np.abs(f @ p - p @ f).max()))
        e, v = np.linalg.eigh(0.5 * (f + f.T))
        if 0 < n < len(e):
            gaps.append(float(e[n] - e[n - 1]))
        repro = max(repro, float(np.abs(occ * (v[:, :n] @ v[:, :n].T) - p).max()))
        dF = max(dF, float(np.abs(f - fr).max()))
    return {"commutator": comm, "reproduction": repro, "gap": min(gaps) if gaps else None, "dF": dF, "nbas": len(idx)}


def r1_singlet_stability(method, Z, X, P, triplet=False):
    """lowest eigenvalue (eV) of the real singlet RHF stability matrix A+B at the closed-shell density P (compact
    or padded layout of ONE molecule), built from the reference model's dense integrals and the orbitals of the
    reference Fock matrix at P.  Negative => the SCF solution is a saddle point, not a minimum.
    triplet=True: the RHF->UHF (triplet) stability matrix instead (negative => a symmetry-broken unrestricted
    state lies below the restricted one).
    -> (lambda_min, gap) or None when the reference model does not cover the method."""
    if method not in R1_METHODS:
        return None
    from vlib.ref import nddo

    Z = [int(z) for z in Z if z > 0]
    X = np.asarray(X, float)[: len(Z)]
    mdl = nddo.Model(method, Z, X)
    P = np.asarray(P, float)
    if P.shape[0] != mdl.nao:
        idx = real_orbital_index(Z)
        P = P[np.ix_(idx, idx)]
    F = mdl.fock_rhf(P)
    e, v = np.linalg.eigh(0.5 * (F + F.T))
    no = int(round(np.trace(P) / 2.0))
    nv = len(e) - no
    if no <= 0 or nv <= 0:
        return None
    Co, Cv, eo, ev = v[:, :no], v[:, no:], e[:no], e[no:]
    eri = mdl.eri
    iajb = np.einsum("mi,na,mnls,lj,sb->iajb", Co, Cv, eri, Co, Cv, optimize=True)
    ijab = np.einsum("mi,nj,mnls,la,sb->ijab", Co, Co, eri, Cv, Cv, optimize=True)
    # A = d(e_a - e_i) + 2(ia|jb) - (ij|ab);  B = 2(ia|jb) - (ib|ja)
    M = 4.0 * iajb - ijab.transpose(0, 2, 1, 3) - iajb.transpose(0, 3, 2, 1)
    if triplet:
        # RHF -> UHF (triplet) stability: 3A + 3B = d(e_a - e_i) - (ij|ab) - (ib|ja)
        M = -ijab.transpose(0, 2, 1, 3) - iajb.transpose(0, 3, 2, 1)
    M = M.reshape(no * nv, no * nv)
    M = M + np.diag((ev[None, :] - eo[:, None]).ravel())
    lam = np.linalg.eigvalsh(0.5 * (M + M.T))
    return float(lam[0]), float(ev[0] - eo[-1])
