#!/venv/bin/python
"""Regenerate MANIFEST.json from props/registry.json (single source of truth for which
checks are claimed).  Usage: tools/mkmanifest.py"""
import json, os, sys
ROOT = os.path.dirname(os.path.dirname(os.path.abspath(__file__)))
reg = json.load(open(os.path.join(ROOT, "props", "registry.json")))
props = [json.loads(l) for l in open(os.path.join(ROOT, "properties.jsonl"))]
checks, na = [], []
for p in props:
    pid = p["id"]
    r = reg.get(pid)
    if not r or not r.get("claimed"):
        na.append({"property_id": pid, "reason": (r or {}).get(
            "reason", "check not built yet; nothing is claimed for this property at this commit")})
        continue
    checks.append({
        "property_id": pid,
        "quick_cmd": f"./check {pid} --tier quick",
        "thorough_cmd": f"./check {pid} --tier thorough",
        "evidence_file": f"/verif/evidence/{pid}.json",
        "replay_cmd_template": f"./check {pid} --replay {{path}}",
        "engine": "vlib",
        "level_claimed": {"category": r.get("category", "exploration"),
                          "text": r["text"], "design_ref": r.get("design_ref", f"DESIGN.md §6 {pid}")},
        "level_note": r["note"],
        "technique": r["technique"],
    })
man = {
    "version": 1,
    "setup_cmd": "./check --selfcheck",
    "hooks": {
        "guard": "PYSEQM_VERIF",
        "enable": "no source hooks: every monitor attaches from the harness (function/method wrapping, sys.monitoring, child-process fault injection); PYSEQM_VERIF is reserved and unused",
        "baseline_off_cmd": "cd /repo && env -u PYSEQM_VERIF /venv/bin/python -m pytest -ra -q -p no:cacheprovider --timeout=900 --continue-on-collection-errors",
        "source_commits": [],
        "add_only": True,
    },
    "engines": [{"name": "vlib", "path": "/verif/vlib",
                 "serves_properties": [c["property_id"] for c in checks],
                 "kind_free_text": "runtime monitoring harness: generated hostile workloads run against the real /repo code in worker subprocesses, monitors (wrappers, sys.monitoring counters/failpoints, post-conditions) record events, deterministic oracles (metamorphic relations, independent reference models, finite differences, offline checkers on HDF5/XYZ/checkpoint artefacts) judge them"}],
    "checks": checks,
    "notes": "Runtime monitoring only (no sanitizers: pure-Python repository, see DESIGN.md §3). Exit 0 held / 1 violation / 2 inconclusive. known_findings.json lists genuine defects recorded rather than repaired.",
    "not_applicable": na,
}
json.dump(man, open(os.path.join(ROOT, "MANIFEST.json"), "w"), indent=1)
print("checks:", len(checks), "not_applicable:", len(na))
