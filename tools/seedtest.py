#!/venv/bin/python
"""Run a check against a seeded defect without touching /repo or the committed evidence.

  tools/seedtest.py <seeded-dir> [--tier quick|thorough] [--props C01,C14]

Creates a scratch git worktree of /repo under /tmp, applies <seeded-dir>/patch.diff, runs
`VERIF_REPO=<worktree> ./check <prop>` (evidence and replays redirected to a scratch directory),
prints exit code and VIOLATION lines, appends the outcome to <seeded-dir>/results.jsonl and removes
the worktree."""
import argparse, json, os, shutil, subprocess, sys, tempfile, time

ap = argparse.ArgumentParser()
ap.add_argument("seeded")
ap.add_argument("--tier", default="quick")
ap.add_argument("--props")
ap.add_argument("--seed", default="0")
a = ap.parse_args()
V = os.path.dirname(os.path.dirname(os.path.abspath(__file__)))
sd = os.path.abspath(a.seeded)
meta = json.load(open(os.path.join(sd, "meta.json")))
props = (a.props or meta.get("property")).split(",")
wt = tempfile.mkdtemp(prefix="seedwt-")
os.rmdir(wt)
subprocess.run(["git", "-C", "/repo", "worktree", "add", "-q", "--detach", wt, "HEAD"], check=True)
try:
    subprocess.run(["git", "-C", wt, "apply", os.path.join(sd, "patch.diff")], check=True)
    for p in props:
        scratch = tempfile.mkdtemp(prefix="seedev-")
        env = dict(os.environ, VERIF_REPO=wt, VERIF_EVIDENCE_DIR=scratch, VERIF_REPLAY_DIR=scratch,
                   VERIF_SEED=a.seed)
        t0 = time.time()
        r = subprocess.run([os.path.join(V, "check"), p, "--tier", a.tier], env=env, cwd=V,
                           capture_output=True, text=True)
        lines = [l for l in r.stdout.splitlines() if l.startswith(("VIOLATION", "KNOWN-FINDING", "INCONCLUSIVE", "SUMMARY"))]
        detail = [l for l in r.stdout.splitlines() if l.startswith("  clause=")][:5]
        out = {"property": p, "tier": a.tier, "seed": int(a.seed), "exit": r.returncode, "wall_s": round(time.time() - t0),
               "violations": sum(l.startswith("VIOLATION") for l in lines), "caught": r.returncode == 1,
               "first": detail[:3], "summary": [l for l in lines if l.startswith("SUMMARY")],
               "repo_head": subprocess.run(["git", "-C", "/repo", "rev-parse", "--short", "HEAD"], capture_output=True, text=True).stdout.strip(),
               "verif_head": subprocess.run(["git", "-C", V, "rev-parse", "--short", "HEAD"], capture_output=True, text=True).stdout.strip()}
        print(json.dumps(out)[:1500])
        with open(os.path.join(sd, "results.jsonl"), "a") as f:
            f.write(json.dumps(out) + "\n")
        shutil.rmtree(scratch, ignore_errors=True)
finally:
    subprocess.run(["git", "-C", "/repo", "worktree", "remove", "--force", wt])
    shutil.rmtree(wt, ignore_errors=True)
