#!/venv/bin/python
"""tools/register.py <ID> <category> <technique> <text> <note>  — add/replace a claimed check in props/registry.json and regenerate MANIFEST.json"""
import json, os, subprocess, sys
V = os.path.dirname(os.path.dirname(os.path.abspath(__file__)))
pid, cat, tech, text, note = sys.argv[1:6]
p = os.path.join(V, "props", "registry.json")
reg = json.load(open(p))
reg[pid] = {"claimed": True, "category": cat, "technique": tech, "text": text, "note": note}
json.dump(dict(sorted(reg.items())), open(p, "w"), indent=1)
subprocess.run([os.path.join(V, "tools", "mkmanifest.py")], check=True)
