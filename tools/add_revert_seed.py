#!/venv/bin/python
"""tools/add_revert_seed.py <commit> <PROP> <mech-key> <needs-to-manifest> <fixed-entry-text>
Creates seeded/revert-<PROP>-<mech>/ (reverse diff of a fix: commit of /repo) and appends the 'fixed:' line."""
import json, os, subprocess, sys
commit, prop, mech, needs, text = sys.argv[1:6]
V = os.path.dirname(os.path.dirname(os.path.abspath(__file__)))
d = os.path.join(V, "seeded", "revert-%s-%s" % (prop, mech))
os.makedirs(d, exist_ok=True)
diff = subprocess.run(["git", "-C", "/repo", "diff", commit, commit + "~1"], capture_output=True, text=True, check=True).stdout
open(os.path.join(d, "patch.diff"), "w").write(diff)
msg = subprocess.run(["git", "-C", "/repo", "log", "-1", "--format=%B", commit], capture_output=True, text=True).stdout
json.dump({"property": prop, "origin": "revert of fix commit %s (re-introduces a genuine defect of the pinned tree)" % commit,
           "mech_key": mech, "summary": msg.splitlines()[0], "mechanism": msg, "needs_to_manifest": needs,
           "tests_run": "the pinned tree itself (64 pass)"}, open(os.path.join(d, "meta.json"), "w"), indent=1)
kp = os.path.join(V, "known_findings.json")
k = json.load(open(kp))
k["fixed"].append("fixed: property=%s %s %s" % (prop, commit, text))
json.dump(k, open(kp, "w"), indent=1)
print(d)
