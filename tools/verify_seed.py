#!/venv/bin/python
"""Coordinator-side confirmation of a sub-agent's seeded change.

  tools/verify_seed.py /tmp/seed-c10 1 [--skip-clean-suite]

In the seeder's worktree: (clean) demo must exit 0; apply patch; repository test suite must give
the baseline result (65 passed); demo must exit non-zero; undo.  On success the change is copied to
/verif/seeded/<prop>-<n>/ (patch.diff, demo.py, meta.json + 'confirmed' block)."""
import json, os, re, shutil, subprocess, sys, time

src_wt, n = sys.argv[1], sys.argv[2]
# work in a private worktree so that a seeder still using its own is never disturbed
wt = "/tmp/vs-%s-%s" % (os.path.basename(src_wt), n)
subprocess.run(["git", "-C", "/repo", "worktree", "remove", "--force", wt], capture_output=True)
shutil.rmtree(wt, ignore_errors=True)
subprocess.run(["git", "-C", "/repo", "worktree", "add", "-q", "--detach", wt, "HEAD"], check=True)
shutil.copytree(os.path.join(src_wt, "SEED", n), os.path.join(wt, "SEED", n))
sd = os.path.join(wt, "SEED", n)
meta = json.load(open(os.path.join(sd, "meta.json")))
prop = meta.get("property", "C??").upper()
env = dict(os.environ, OMP_NUM_THREADS="1", MKL_NUM_THREADS="1", PYTHONDONTWRITEBYTECODE="1")
env.pop("PYTHONPATH", None)


def sh(cmd, timeout):
    t0 = time.time()
    try:
        r = subprocess.run(cmd, cwd=wt, env=env, capture_output=True, text=True, timeout=timeout)
        return r.returncode, (r.stdout + r.stderr)[-1500:], round(time.time() - t0)
    except subprocess.TimeoutExpired:
        return 124, "timeout", timeout


def clean():
    subprocess.run(["git", "checkout", "--", "."], cwd=wt)
    return subprocess.run(["git", "status", "--porcelain", "--untracked-files=no"], cwd=wt, capture_output=True, text=True).stdout.strip() == ""


out = {"worktree": src_wt, "n": n, "property": prop}
assert clean()
demo = [ "/venv/bin/python", os.path.join("SEED", n, "demo.py")]
if os.path.exists(os.path.join(sd, "demo.py")) is False:
    cands = [f for f in os.listdir(sd) if f.endswith(".py")]
    demo = ["/venv/bin/python", "-m", "pytest", "-q", "-p", "no:cacheprovider", os.path.join("SEED", n, cands[0])]
rc, o, t = sh(demo, 1200)
out["demo_clean"] = {"exit": rc, "wall_s": t, "tail": o[-300:]}
rc = subprocess.run(["git", "apply", os.path.join("SEED", n, "patch.diff")], cwd=wt).returncode
out["apply"] = rc
if rc == 0:
    rc, o, t = sh(["/venv/bin/python", "-m", "pytest", "-q", "-p", "no:cacheprovider", "-n", "5", "--timeout=900"], 3600)
    m = re.search(r"(\d+) passed", o)
    f = re.search(r"(\d+) failed", o)
    out["suite_changed"] = {"exit": rc, "passed": int(m.group(1)) if m else None, "failed": int(f.group(1)) if f else 0, "wall_s": t}
    rc, o, t = sh(demo, 1200)
    out["demo_changed"] = {"exit": rc, "wall_s": t, "tail": o[-400:]}
clean()
ok = (out["demo_clean"]["exit"] == 0 and out.get("apply") == 0 and out["suite_changed"]["passed"] == 65
      and out["suite_changed"]["failed"] == 0 and out["demo_changed"]["exit"] not in (0, 124))
out["confirmed"] = ok
print(json.dumps(out, indent=1))
if ok:
    b = os.path.basename(src_wt)
    rnd = "agent5" if "seed5" in b else "agent4" if "seed4" in b else "agent3" if "seed3" in b else ("agent2" if "seed2" in b else "agent")
    dst = os.path.join("/verif/seeded", "%s-%s-%s" % (prop, rnd, n))
    os.makedirs(dst, exist_ok=True)
    for f in os.listdir(sd):
        if os.path.isfile(os.path.join(sd, f)):
            shutil.copy(os.path.join(sd, f), dst)
    meta["origin"] = "independent sub-agent given only the property text and a scratch worktree"
    meta["confirmed_by_coordinator"] = {"demo_clean_exit": out["demo_clean"]["exit"], "suite_with_change": out["suite_changed"],
                                        "demo_changed_exit": out["demo_changed"]["exit"],
                                        "repo_head": subprocess.run(["git", "-C", "/repo", "rev-parse", "--short", "HEAD"], capture_output=True, text=True).stdout.strip()}
    json.dump(meta, open(os.path.join(dst, "meta.json"), "w"), indent=1)
subprocess.run(["git", "-C", "/repo", "worktree", "remove", "--force", wt], capture_output=True)
shutil.rmtree(wt, ignore_errors=True)
sys.exit(0 if ok else 1)
