#!/venv/bin/python
"""Regenerate DESIGN.md §14.2 (dispositions of genuine defects) from known_findings.json."""
import json, os, re
V = os.path.dirname(os.path.dirname(os.path.abspath(__file__)))
kf = json.load(open(os.path.join(V, "known_findings.json")))
s = open(os.path.join(V, "DESIGN.md")).read()
i = s.index("### 14.2 Dispositions")
j = s.index("### 14.3 Corrections to the plan")
rows = []
for f in kf["fixed"]:
    m = re.match(r"fixed: property=(C\d+) (\w+) (.*)", f)
    rows.append("| %s | %s | %s |" % (m.group(1), m.group(2), m.group(3).replace("|", "\\|")))
opens = []
for e in kf["open"]:
    opens.append("* **%s / `%s`** — %s *Classifier:* %s. *Why not repaired:* %s." % (
        e["property"], e["key"], e["what_fails"], e["classifier"], e["why_not_fixed"]))
new = '''### 14.2 Dispositions: genuine defects found, repaired or recorded

Every violation a check reported on the tree was replayed in isolation and classified as genuine
defect or false alarm (§8). **%d genuine defects were repaired** by minimal unguarded `fix:` commits in
/repo — the 17 of §7 except rows 2 and 3, plus the ones the checks found while they were being built
(by the builders' workloads, by widening a generator, by the thorough tiers, or from a side remark of a
seeding agent that was then reproduced against the real code). The repository's test suite, unedited,
passes after each (65 passed: the 64 of the baseline plus the previously always-failing surface-hopping
resume test, which commit 1188fb4 makes pass). Each fix is also kept reversed as a seeded fault
(`seeded/revert-*`), and the owning check re-detects it under its mechanism key. `fixed` entries
suppress nothing.

| property | commit | what was wrong |
|---|---|---|
%s

**Open known findings** (`known_findings.json`, %d entries keyed by mechanism; the check prints
`KNOWN-FINDING` for each while its stored example reproduces and still fails on anything its classifier
does not match; a non-finite output is never classified):

%s

The first of these deserves a note. **`pair-on-x-pole`** has a 14-line repair that removes the error
completely (`findings_patches/pair-on-x-pole.candidate-fix.patch`; worst force mismatch afterwards 1.7e-7
of the bound), but it cannot be a `fix:` commit: **the repository's own tests pin the defective
numbers** — `tests/data/methanal.1.xyz` has its C=O bond on the x axis and the stored references of
`test_ground_force_methods_batch_same_species[*]` and `test_cis_batch_*` were generated with the frozen
frame, so 4 of the 64 tests fail with the repair, and the suite may not be edited. Calibration also
showed the mechanism is wider than §7 said: inside the cone (pair vector within 4.47e-4 rad of ±x, the
code's mask `|1+v_x| < 1e-7`) the *energies* are off too (1e-5…3e-5 eV at 1e-4 rad). Several open
findings share one root cause in the Pulay driver (`scf_forward2`: DIIS extrapolation from iteration 2
and a batch-global history reset) and surface under C04, C05, C19 and C20 with property-specific
classifiers.

Observations recorded but not judged (loud failures or outside the stated properties): KSA on
heterogeneous batches raises a shape error when the largest molecule converges first; `eig=False`
raises in `Energy.forward`; RPA with `cis_amp` reuse raises a shape error (`rpa.py:60`); the documented key
`cis_tolerance` is ignored (the code reads `tolerance`); the KSA kernel uses the per-spin response without
the factor 2 (source comment "$$$ multiply by 2 ???"), which slows but does not destabilise the update;
after a dissociating replica's SCF fails in a CIS batch the next step raises in `makeA_pi_batched`;
`run_from_checkpoint` has no entry for the `XL_ESMD` engine (resume raises `Unknown MD type`); the accessors
`Electronic_Structure.get_force/get_dm/get_Hf/...` read attributes that are never assigned (AttributeError);
`all_forces` and the state-dipole arrays of `do_all_forces` are allocated with the default dtype, not the
molecule's; `hop_log` is not stored in the checkpoint, so the final printed hop summary of a resumed run lists
only the hops after the resume (no hop occurred in any affordable kill/resume run, so this is from code reading).
In thermostatted runs with periodic COM removal the removed kinetic energy is given back by a uniform velocity
scaling (deliberate, the Langevin bookkeeping relies on it): the total kinetic temperature stays on target (judged
by C12) but equipartition between atoms is lost at stride 1 (H2O, 300 K: O 52 K, H 428 K) - C12 quantifies over
thermostat parameters, not over COM-removal options, so this is recorded, not judged; a diatomic under
('angular', n) removal can raise `Zero kinetic energy after removing COM momentum` at a turning point (loud).
An audit of every published output against what the checks read (`tools/AUDIT_outputs.md`) produced the
`fixed:` rows for `Electronic_Structure.charge`, `all_forces[:,0]`, the HDF5 `transition_density_matrices` and
`mo/` streams and the hop-log step labels above; outputs still read by no check are listed there (XL_ESMD engine,
stdout reports and timings, geomeTRIC trajectory files).

''' % (len(rows), "\n".join(rows), len(opens), "\n".join(opens))
s = s[:i] + new + s[j:]
open(os.path.join(V, "DESIGN.md"), "w").write(s)
print(len(rows), "fixed;", len(opens), "open")
